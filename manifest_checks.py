# register(...) calls, one per claimed property; executed by tools_gen_manifest.py
TB = ("trusted base: CPython, expat/ElementTree, the simulator in /verif/sim (its determinism is self-tested: "
      "./check selftest), the pristine-fork reference semantics of the library itself (differential oracle)")

register('C04', 'exploration',
         "SCOPED: seeded search over (document, delivery channel, delivery plan, sequence of entry points, source "
         "reuse): every entry point on every channel must equal the eager bytes reference computed on a pristine fork, "
         "and the reference itself must satisfy sentence 1 (is_valid/iter_errors/validate/strict decode/lax decode "
         "agree; strict raises the first lax error; skip-mode data of valid documents equals strict data; the validate "
         "command, run in process, exits with OS-visible status 0 exactly when the document is valid - including a "
         "256-error document). Agreement across validation OPTIONS is not examined. Evidence, not proof.",
         TB + "; documents come from the pool families and the repository corpus; ElementTree channels only for "
         "documents without prefix-dependent values",
         "deterministic simulation: simulated streams/files/peer with seeded delivery plans; pristine-fork differential oracle",
         'DESIGN.md 3 C04')
register('C06', 'exploration',
         "seeded search over (document, API, lazy depth, thin, channel, delivery plan): a lazy resource fed by a simulated "
         "stream/file/peer that hands the bytes over in seeded chunks (cuts inside tags, after the DOCTYPE, 1-8 byte "
         "reads, 16 KiB blocks) must give the verdict, error sequence, decoded data, elements and namespaces of the eager "
         "load of the same bytes (validation, lax/strict/skip decoding incl. to a file object, path selections, resource "
         "iteration; one lazy resource object asked twice and then validated in full must answer consistently). Depth 1 "
         "decides, depths 2-3 are reported. Evidence, not proof.",
         TB + "; lazy error elements/paths are not compared (C19's unclaimed slice)",
         "deterministic simulation: delivery-plan fault injection on the document source; eager pristine-fork reference",
         'DESIGN.md 3 C06')
register('C09', 'exploration',
         "SCOPED to the history half: seeded assembly variants (load order through list constructor / add_schema / "
         "import_schema / include_schema on a build=False schema), repeated build, clear+rebuild, copy, maps.copy, pickle "
         "round trips inside usage histories and restart in a fresh interpreter under another PYTHONHASHSEED (restored from "
         "the pickle, and rebuilt from the source files as the first schema of that interpreter) must give the "
         "same global components and probe results as the canonical assembly. Textual permutation/splitting/spelling is "
         "not examined.",
         TB + "; probes run on forked copies so they do not form a usage history themselves",
         "deterministic simulation: operation histories with lifecycle/restart steps; pristine-fork reference",
         'DESIGN.md 3 C09')
register('C10', 'exploration',
         "seeded histories of 2-12 operations on ONE schema object with 0-3 abort faults inside operations (strict "
         "failure, stop-validation hook, foreign exception from user hooks, I/O error on the stream, transient failure "
         "of the peer behind on-demand namespace locations, async abort raised from the trace function at the k-th "
         "library call or at a measured position inside one of 30 state-writing functions); every completed fault-free "
         "operation must equal the same operation on a pristine forked schema; nothing is relaxed after an abort.",
         TB,
         "deterministic simulation: operation histories with crash-point (abort) injection; pristine-fork reference model",
         'DESIGN.md 3 C10')
register('C11', 'fault_enumeration',
         "eof@k and flip@k at EVERY byte offset of three small documents (exhaustive block) plus seeded eof/flip/eio/"
         "seekfail/close faults on every stream class and on files, x validation mode x eager/lazy x entry point; limit "
         "sweeps at limit-1/limit/limit+1 for several MAX_XML_DEPTH / MAX_XML_ELEMENTS settings; stack sweeps below the "
         "depth limit under three recursion limits and caller stack offsets; seeded lexical mutations (huge numbers and "
         "years, XPath arithmetic in type alternatives, odd QNames / namespace URIs / location hints, garbled text sources, "
         "every converter, with and without the defusing pre-parse). Oracle: library "
         "exception or the injected instance, lax never raises for content, truncation never valid, limit rule, hang "
         "watchdog, clean retry equals the reference.",
         TB + "; wall-clock hang watchdog of 30 s; exactly-at-limit outcomes recorded not judged",
         "deterministic simulation: enumerated + seeded stream fault injection, limit and stack sweeps",
         'DESIGN.md 3 C11')
register('C12', 'fault_enumeration',
         "the product allow mode x reference mechanism x location spelling (x main source kind in the thorough tier) is "
         "enumerated over a scratch file tree and a stub peer (main sources incl. a response stream that names a remote "
         "origin); fetch faults drive the fallback loop to a second candidate; the mechanisms that act on a built "
         "schema also run on a schema restored from a pickle; "
         "every file open / URL request the process attempts is logged by an audit hook + the stub peer and classified by "
         "an independent classifier written against the statement (realpath/commonpath for the sandbox); non-influence is "
         "checked through marker components.",
         TB + "; the audit hook sees every open()/urlopen; symlink-free tree; vacuous (mechanism, spelling) pairs are excluded and listed",
         "deterministic simulation: simulated file tree + stub network peer + audit-hook monitor, enumerated with fetch-fault injection",
         'DESIGN.md 3 C12')
register('C13', 'fault_enumeration',
         "every (payload, channel) pair of the catalogue (10 entity/DTD payloads + 3 benign x 34 channels incl. an object that only has read()) is enumerated "
         "each run; defuse mode, role (instance, lazy instance, via schema settings, main/included/imported/redefined "
         "schema, schema reached through a hint or handed to the document-level API, from_settings, XmlDocument.parse, the constructor "
         "with global_maps, the validate / xml2json commands run in process), "
         "prolog variant (BOM, UTF-16, latin-1, padding past 8/16/64 KiB) and delivery plan (incl. cuts inside '<!ENTITY') "
         "are seeded; the peer may re-serve different bytes on the second open, a schema part may live on the other side "
         "(local/remote) of the main schema, one read of the stream may fail once during the pre-parse. Oracle: forbidden before expansion, no "
         "fetch of the external target, nothing parsed contains the marker, benign documents parse identically.",
         TB + "; a stream that only carries a remote .url attribute is not claimed as remote data",
         "deterministic simulation: stream class/seekability/delivery seams, misbehaving peer (re-serve), audit-hook monitor",
         'DESIGN.md 3 C13')
register('C18', 'exploration',
         "2-4 real threads, serialised by a seeded baton scheduler that pre-empts at every function call inside "
         "xmlschema/elementpath and at every (replaced) library lock operation (in a share of the runs also at every LINE of the "
         "listed shared-state functions, or of one whole source file drawn per run), run programs of 1-3 operations on one "
         "shared schema: built before sharing, racing build (also of a use_meta=False schema, whose build registers the "
         "meta-schema documents), shared lazy resource; policies: uniform switching, PCT, "
         "targeted, run-to-completion. Every result must equal the pristine sequential reference, the racing build must "
         "run the build body exactly once into the sequential state, no deadlock, no residue in a sequential epilogue. "
         "The recorded schedule is the replay trace and is minimised with ddmin.",
         TB + "; interleavings below call granularity and the free-running stress clause are not explored",
         "deterministic simulation: controlled thread scheduler (baton + sys.settrace), cooperative lock replacement, schedule record/replay",
         'DESIGN.md 3 C18')
