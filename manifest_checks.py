# register(...) calls, one per claimed property; executed by tools_gen_manifest.py
