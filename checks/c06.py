"""
C06 - lazy (streaming) processing gives the same results as full loading.

Seam: the `source` argument. The document reaches the lazy resource through a simulated
stream / file / peer whose delivery plan (how many bytes every read() returns) is drawn
from the run seed. Oracle: the eager load of the same bytes in a pristine fork.
"""
import json
import os

from sim import core, canon, ops, simio
from sim.core import Check, parallel_map
from pool.pool import build_pool, sanity_check, scratch_dir

VALIDATION_APIS = ('iter_errors', 'is_valid', 'to_json', 'iter_decode_path')
RESOURCE_APIS = ('res_depth', 'res_iter', 'res_find', 'res_ns', 'res_loc')
CHANNELS = ('raw', 'raw', 'buffered', 'textio', 'duck', 'path', 'fileurl', 'http', 'bytes', 'bytesio')


# --------------------------------------------------------------------------
# resource level observations

def _elem_obs(res, elem, deep=True):
    nsmap = res.get_nsmap(elem)
    xmlns = res.get_xmlns(elem)
    return [canon.canon_elem(elem) if deep else canon.elem_shallow(elem),
            sorted(nsmap.items()) if nsmap is not None else None,
            [list(x) for x in xmlns] if xmlns else None]


def _depth_elems(root, depth):
    level = [root]
    for _ in range(depth):
        level = [c for e in level for c in e if not callable(c.tag)]
    return level


def resource_api(resource, op, lazy_depth):
    """Observation of one resource API. For an eager resource the lazy shape is emulated."""
    api = op['api']
    lazy = resource.is_lazy()
    if api == 'res_depth':
        mode = op.get('mode', 1)
        out = []
        if lazy:
            for elem in resource.iter_depth(mode=mode):
                if elem is resource.root:
                    out.append(['root', canon.elem_shallow(elem)])
                else:
                    out.append(['full'] + _elem_obs(resource, elem))
            return out
        root = resource.root
        fulls = [['full'] + _elem_obs(resource, e) for e in _depth_elems(root, lazy_depth)]
        rootobs = ['root', canon.elem_shallow(root)]
        return {1: fulls, 2: fulls, 3: [rootobs], 4: fulls + [rootobs], 5: [rootobs] + fulls + [rootobs]}[mode]
    if api == 'res_iter':
        # multiset of (tag, attrib) of every element, sorted: yielding order is not claimed
        return sorted(json.dumps(canon.elem_shallow(e)) for e in resource.iter() if not callable(e.tag))
    if api == 'res_find':
        return [_elem_obs(resource, e) for e in resource.iterfind(op['path'], op.get('ns'))]
    if api == 'res_ns':
        return sorted(resource.get_namespaces(root_only=False).items())
    if api == 'res_loc':
        # hints are normalised against the resource's base URL, which legitimately differs per
        # channel: compare (namespace, last path segment)
        return [[ns, url.rsplit('/', 1)[-1]] for ns, url in resource.get_locations(root_only=False)]
    raise ValueError(api)


def family_ns(entry):
    return {k: v for k, v in entry.schema.namespaces.items() if k and k not in ('xs', 'xsi', 'xml', 'vc')}


# --------------------------------------------------------------------------
# comparison of validation results

def is_root_level(err):
    path = err[4] if len(err) > 4 else None
    return isinstance(path, str) and path.count('/') == 1


def compare_errors(lazy_errs, eager_errs):
    """
    lazy errors are [cls, reason]; eager are [cls, reason, tag, obj, path].
    Returns None if equal, else a partial signature.
    """
    le = [tuple(e[:2]) for e in lazy_errs]
    ee = [tuple(e[:2]) for e in eager_errs]
    if le == ee:
        return None
    if sorted(le) == sorted(ee):
        normal = [tuple(e[:2]) for e in eager_errs if not is_root_level(e)] + \
                 [tuple(e[:2]) for e in eager_errs if is_root_level(e)]
        return {'clause': 'errors-reordered',
                'normal_form': 'root-errors-last' if le == normal else 'other'}
    missing = list(ee)
    extra = []
    for e in le:
        if e in missing:
            missing.remove(e)
        else:
            extra.append(e)
    sig = {'clause': 'errors-differ'}
    if missing:
        sig['missing'] = sorted({canon.template(m[1]) for m in missing})[0]
    if extra:
        sig['extra'] = sorted({canon.template(x[1]) for x in extra})[0]
    return sig


class C06(Check):
    PROP = 'C06'
    LEVEL = 'exploration'
    GROUP = 12
    CASE_TIMEOUT = 60.0
    FAMILIES = ('ids', 'keys', 'xsitype', 'subst', 'fixed', 'wild', 'ns', 'mixed', 'assert11', 'big', 'multi', 'shadow', 'idfields',
                'ondemand', 'deepkey', 'grouped', 'simple', 'oddns')
    RULE = ("case = (schema family/version, pool document, API, lazy depth, thin_lazy, channel, delivery plan) "
            "drawn from the run seed; executed on a lazy XMLResource fed by a simulated stream/file/peer and "
            "compared with the eager reference of the same bytes computed in a pristine fork. Skeleton = "
            "(family, document fault class, channel, plan class, cut position classes, API, lazy depth, thin). "
            "Non-trivial iff the document was delivered in >= 2 reads with at least one cut strictly inside "
            "the root element (observed on the stream, or implied by a 16 KiB reader on a larger file/peer body).")
    ASSUMPTIONS = [
        "the eager load of the same bytes in a pristine forked process is the reference semantics",
        "lazy errors carry no element and paths on pruned trees are not compared (C19's unclaimed slice)",
        "lazy depth 1 decides; depths 2-3 are explored and reported in counters only",
        "file and http channels deliver in the 16 KiB blocks ElementTree.iterparse asks for (in-contract BufferedIOBase)",
    ]
    REAL_STUB = {
        'real': ['xmlschema', 'elementpath', 'xml.etree.ElementTree/expat', 'urllib OpenerDirector plumbing',
                 'OS file system for path and file: channels'],
        'stub': ['caller streams (SimRaw/SimBuffered/SimText/SimDuck)', 'remote peer (SimPeer via install_opener)'],
    }

    def __init__(self):
        self.entries = {}
        self.refs = {}
        self.corpus = True
        self.not_rejected = []

    # ---- setup -----------------------------------------------------------
    def setup(self, tier, master_seed):
        self.tier = tier
        self.entries = build_pool(master_seed, names=self.FAMILIES, corpus=self.corpus)
        self.not_rejected = sanity_check(self.entries)
        self.keys = sorted(self.entries)
        self.scratch = scratch_dir()
        items = []
        for key in self.keys:
            e = self.entries[key]
            for di, d in enumerate(e.docs):
                for rop in self.ref_ops(e):
                    items.append((key, di, rop))
        results = parallel_map(self._eval_ref, items, timeout=120)
        for (key, di, rop), res in zip(items, results):
            self.refs[(key, di, json.dumps(rop, sort_keys=True))] = res

    def ref_ops(self, entry):
        out = [{'api': 'iter_errors'}, {'api': 'to_json'}, {'api': 'to_json_strict'}, {'api': 'to_json_skip'},
               {'api': 'valid_twice'}, {'api': 'to_json_fp'}]
        for p in entry.family.paths:
            out.append({'api': 'iter_decode_path', 'path': p})
        for p in getattr(entry.family, 'doc_ns_paths', ()):
            # no namespace map: the names of the path are resolved with the declarations of the document
            out.append({'api': 'iter_decode_path', 'path': p, 'docns': True})
        out.append({'api': 'res_all'})
        return out

    def _eval_ref(self, item):
        key, di, rop = item
        e = self.entries[key]
        data = e.docs[di].data
        return self.evaluate(e, data, rop, eager=True)

    # ---- one evaluation (reference or lazy) -------------------------------
    def evaluate(self, entry, data, op, eager, source=None):
        import xmlschema
        api = op['api']
        try:
            if api == 'res_all':
                # every resource-level observation of the eager resource, keyed by sub-op
                res = xmlschema.XMLResource(data)
                out = {}
                for sub in self.resource_subops(entry):
                    k = json.dumps(sub, sort_keys=True)
                    try:
                        out[k] = {'k': 'ok', 'v': resource_api(res, sub, sub.get('lazy', 1))}
                    except Exception as exc:
                        out[k] = canon.canon_exc(exc)
                return {'k': 'ok', 'v': out}
            if eager:
                source = data
            if api in RESOURCE_APIS:
                return {'k': 'ok', 'v': resource_api(source, op, op.get('lazy', 1))}
            schema = entry.schema
            lazy = not eager
            if api == 'iter_errors':
                return {'k': 'ok', 'v': ops.errors_canon(list(schema.iter_errors(source)), lazy)}
            if api == 'is_valid':
                return {'k': 'ok', 'v': schema.is_valid(source)}
            if api == 'valid_twice':
                # the same resource object asked twice, then validated in full: a verdict must not use it up
                a = schema.is_valid(source)
                b = schema.is_valid(source)
                return {'k': 'ok', 'v': [a, b, not list(schema.iter_errors(source))]}
            if api == 'to_json':
                r = xmlschema.to_json(source, schema=schema, validation='lax')
                if isinstance(r, tuple):
                    return {'k': 'ok', 'v': [json.loads(r[0]), ops.errors_canon(r[1], lazy)]}
                return {'k': 'ok', 'v': [json.loads(r), []]}
            if api == 'to_json_fp':
                # the lazy JSON encoder meets the chunk errors only while json.dump() writes: the returned error
                # list must hold them too
                import io
                fp = io.StringIO()
                r = xmlschema.to_json(source, fp=fp, schema=schema, validation='lax')
                return {'k': 'ok', 'v': [json.loads(fp.getvalue()), ops.errors_canon(list(r or ()), lazy)]}
            if api in ('to_json_strict', 'to_json_skip'):
                r = xmlschema.to_json(source, schema=schema, validation=api.rsplit('_', 1)[1])
                if isinstance(r, tuple):
                    return {'k': 'ok', 'v': [json.loads(r[0]), ops.errors_canon(r[1], lazy)]}
                return {'k': 'ok', 'v': [json.loads(r), []]}
            if api == 'iter_decode_path':
                items = []
                errs = []
                for x in schema.iter_decode(source, path=op['path'],
                                            namespaces=None if op.get('docns') else family_ns(entry)):
                    if isinstance(x, xmlschema.XMLSchemaValidationError):
                        errs.append(x)
                    else:
                        items.append(canon.canon_data(x))
                return {'k': 'ok', 'v': [items, ops.errors_canon(errs, lazy)]}
            raise ValueError(api)
        except Exception as exc:
            return canon.canon_exc(exc)

    def resource_subops(self, entry):
        subs = []
        for depth in (1, 2, 3):
            for mode in (1, 2, 3, 4, 5):
                subs.append({'api': 'res_depth', 'mode': mode, 'lazy': depth})
            for p in entry.family.paths:
                subs.append({'api': 'res_find', 'path': p, 'lazy': depth, 'ns': family_ns(entry)})
            for p in getattr(entry.family, 'doc_ns_paths', ()):
                subs.append({'api': 'res_find', 'path': p, 'lazy': depth, 'docns': True})
        subs += [{'api': 'res_iter'}, {'api': 'res_ns'}, {'api': 'res_loc'}]
        return subs

    # ---- generation --------------------------------------------------------
    def n_cases(self, tier):
        return 6000 if tier == 'quick' else 1500000

    def gen_case(self, rng, index):
        key = rng.choice(self.keys)
        # a tenth of the runs: families whose identity selectors reach below the lazy depth (what a selector sees
        # depends on how far ahead the parser has built the tree), validated - the deciding APIs at depth 1
        ahead = [k for k in self.keys if k.startswith(('deepkey/', 'keys/', 'idfields/'))]
        focus = bool(ahead) and rng.random() < 0.1
        if focus:
            key = rng.choice(ahead)
        # another 6 %: path selections with more than one step (or a predicate) on the families that have them
        multi = [k for k in self.keys if any('/' in p_ or '[' in p_ for p_ in self.entries[k].family.paths)]
        pfocus = not focus and bool(multi) and rng.random() < 0.06
        if pfocus:
            key = rng.choice(multi)
        # another 5 %: documents that declare namespaces below the root element, seen through the resource-level
        # observations (the declarations of a streamed chunk live only as long as the chunk)
        nsfocus = not focus and not pfocus and rng.random() < 0.05
        if nsfocus:
            if not hasattr(self, '_nsdocs'):
                self._nsdocs = [(k, i) for k in self.keys for i, d in enumerate(self.entries[k].docs)
                                if d.data.count(b'xmlns') > d.data[:d.data.find(b'>', d.data.find(b'?>') + 2)].count(b'xmlns')]
            nsfocus = bool(self._nsdocs)
        e = self.entries[key]
        di = rng.randrange(len(e.docs))
        if nsfocus:
            key, di = rng.choice(self._nsdocs)
            e = self.entries[key]
        data = e.docs[di].data
        depth = 1 if focus or pfocus or nsfocus else rng.choice([1, 1, 1, 1, 2, 3])
        apis = ['iter_errors', 'iter_errors', 'is_valid', 'to_json', 'to_json', 'to_json_strict', 'to_json_skip',
                'res_depth', 'res_iter', 'res_ns', 'res_loc', 'valid_twice', 'to_json_fp']
        if e.family.paths:
            apis += ['iter_decode_path', 'res_find']
        api = rng.choice(['iter_errors', 'is_valid']) if focus else rng.choice(apis)
        if pfocus:
            api = rng.choice(['iter_decode_path', 'res_find'])
        if nsfocus:
            api = rng.choice(['res_ns', 'res_ns', 'res_iter', 'res_depth', 'iter_errors', 'to_json'])
        if e.docs[di].kind == 'fault:double' and api.startswith('to_json'):
            # two faults x lazy decoding multiplies the listed lazy-decode findings into many surface forms
            # without adding information: double-fault documents go through validation only
            api = 'iter_errors'
        op = {'api': api, 'lazy': depth, 'thin': rng.random() < 0.6}
        if api == 'res_depth':
            op['mode'] = rng.randrange(1, 6)
        if api in ('iter_decode_path', 'res_find'):
            op['path'] = rng.choice([p_ for p_ in e.family.paths if '/' in p_ or '[' in p_] if pfocus else e.family.paths)
            if getattr(e.family, 'doc_ns_paths', None) and not pfocus and rng.random() < 0.5:
                op['path'] = rng.choice(e.family.doc_ns_paths)
                op['docns'] = True
        ch = rng.choice(CHANNELS)
        plan, pclass = simio.gen_plan(rng, data)
        src = {'ch': ch, 'plan': plan, 'pclass': pclass}
        if ch in ops.STREAM_CHANNELS and rng.random() < 0.08:
            src['seekable'] = False
        return {'entry': key, 'doc': di, 'op': op, 'src': src}

    # ---- execution + judgement ----------------------------------------------
    def run_case(self, case):
        import xmlschema
        e = self.entries[case['entry']]
        if hasattr(e.family, 'peer_pages'):
            # the cases of a run group share one process: a schema that loads namespaces on demand keeps them (C10's
            # listed finding), so every case of such a family works on a copy of the pristine schema
            import copy
            import pickle
            if not hasattr(self, '_pristine'):
                self._pristine = {}
            blob = self._pristine.get(case['entry'])
            if blob is None:
                blob = self._pristine[case['entry']] = pickle.dumps(e.schema)
            e = copy.copy(e)
            e.schema = pickle.loads(blob)
        doc = e.docs[case['doc']]
        data = doc.data
        op = dict(case['op'])
        src = case['src']
        depth = op.get('lazy', 1)
        env = ops.Env(os.path.join(self.scratch, f'run-{os.getpid()}'))
        counters = {}
        violations = []

        def count(name, n=1):
            counters[name] = counters.get(name, 0) + n

        try:
            core_ = None
            try:
                source, core_ = ops.make_source(env, data, src)
                resource = xmlschema.XMLResource(source, lazy=True if depth == 1 else depth,
                                                 thin_lazy=op.get('thin', True))
                if op['api'] in RESOURCE_APIS and op['api'] == 'res_find' and not op.get('docns'):
                    op['ns'] = family_ns(e)
                got = self.evaluate(e, data, op, eager=False, source=resource)
            except Exception as exc:
                got = canon.canon_exc(exc)
        finally:
            env.cleanup()
        got = json.loads(json.dumps(got, default=repr))

        # what was delivered
        rs, re_ = simio.root_span(data)
        if core_ is not None:
            cuts = core_.cuts
            count('reads', core_.reads)
            count('bytes_delivered', core_.delivered)
            count('rewinds', core_.rewinds)
        elif src['ch'] in ('path', 'fileurl', 'http', 'pathobj', 'bytes', 'bytesio'):
            cuts = list(range(16384, len(data), 16384))      # iterparse asks for 16 KiB blocks
        else:
            cuts = []
        inside = [c for c in cuts if re_ <= c < len(data)]
        incremental = bool(inside)
        cclasses = simio.cut_classes(data, inside)
        if any(rs < c < re_ for c in cuts):
            count('probe_cut_inside_root_start_tag')
        if 'in-tag' in cclasses:
            count('probe_read_returned_inside_a_tag')
        count('channel_' + src['ch'])
        count('api_' + op['api'])
        count('depth_%d' % depth)
        count('delivery_incremental' if incremental else 'delivery_whole')

        # reference
        if op['api'] in RESOURCE_APIS:
            sub = {k: v for k, v in op.items() if k not in ('thin',)}
            if op['api'] in ('res_iter', 'res_ns', 'res_loc'):
                sub.pop('lazy', None)
            allref = self.refs[(case['entry'], case['doc'], json.dumps({'api': 'res_all'}, sort_keys=True))]
            ref = allref['v'][json.dumps(sub, sort_keys=True)]
        elif op['api'] == 'is_valid':
            r = self.refs[(case['entry'], case['doc'], json.dumps({'api': 'iter_errors'}, sort_keys=True))]
            ref = {'k': 'ok', 'v': not r['v']} if r['k'] == 'ok' else r
        else:
            rop = {k: v for k, v in op.items() if k in ('api', 'path', 'docns')}
            ref = self.refs[(case['entry'], case['doc'], json.dumps(rop, sort_keys=True))]

        sig = self.judge(op, src, got, ref, incremental)
        if sig is not None:
            sig['delivery'] = 'incremental' if incremental else 'whole'
            sig['family'] = e.family.name
            if getattr(doc, 'tag', None):
                sig['doc_tag'] = doc.tag
            if '[' in (op.get('path') or ''):
                sig['path_kind'] = 'predicate'
            if depth == 1 or os.environ.get('VERIF_C06_DEEP'):
                if depth > 1:
                    sig['depth'] = 'deep'
                violations.append({'signature': sig, 'detail': {
                    'entry': case['entry'], 'doc': doc.name, 'op': op, 'src': src,
                    'lazy': _short(got), 'eager': _short(ref)}})
            else:
                count('deep_depth_mismatch_reported_not_decided')
                count('deep_' + sig['clause'])

        skeleton = [e.family.name, doc.kind, src['ch'], src.get('pclass'), cclasses, op['api'],
                    op.get('mode'), op.get('path'), depth, op.get('thin'), src.get('seekable', True)]
        return {'violations': violations, 'skeleton': skeleton, 'nontrivial': incremental,
                'counters': counters, 'digest': core.stable_hash([got, sig]),
                'sample': {'case': case, 'result_kind': got.get('k'), 'incremental': incremental}}

    def judge(self, op, src, got, ref, incremental):
        api = op['api']
        base = {'api': api}
        if api == 'to_json_fp':
            # the same lazy decoder as to_json (so the listed lazy-decode findings are recognised), written to a file
            base = {'api': 'to_json', 'fp': True}
        nonseek = src.get('seekable', True) is False
        def reason(r):
            return canon.template((r.get('verr') or [None, r.get('msg', '')])[1])
        if got['k'] == 'raise':
            if ref['k'] == 'raise':
                if 'verr' in got and 'verr' in ref:
                    if got['verr'][:2] == ref['verr'][:2]:
                        return None
                    # strict mode: both raise a validation error, but not the same one
                    base.update(clause='strict-raises-other-error', lazy_reason=reason(got), eager_reason=reason(ref))
                    return base
                if ref['cls'] == got['cls']:
                    return None
            if nonseek and got['cls'] == 'XMLResourceOSError':
                return None   # documented: a non-seekable stream cannot be iterated again
            base.update(clause='raise', cls=got['cls'], msg=reason(got))
            return base
        if ref['k'] == 'raise':
            base.update(clause='no-raise', cls=ref['cls'], eager_reason=reason(ref))
            return base
        g, r = got['v'], ref['v']
        if api == 'valid_twice':
            # self-consistency of the three answers on ONE lazy resource (their agreement with the eager verdict is
            # the is_valid API's question)
            if len(set(g)) != 1:
                base.update(clause='reused-resource-answers-differ', answers=g)
                return base
            return None
        if api == 'is_valid':
            if g != r:
                base.update(clause='verdict', lazy=g, eager=r)
                return base
            return None
        if api == 'iter_errors':
            d = compare_errors(g, r)
            if d:
                if bool(g) != bool(r):
                    d['verdict_differs'] = True
                base.update(d)
                return base
            return None
        if api in ('to_json', 'iter_decode_path', 'to_json_strict', 'to_json_skip', 'to_json_fp'):
            d = compare_errors(g[1], r[1])
            if g[0] != r[0]:
                base.update(clause='data', diff=data_diff(g[0], r[0]))
                if d:
                    base['errors'] = d['clause']
                return base
            if d:
                base.update(d)
                return base
            return None
        if g != r:
            base.update(clause='iteration')
            if api == 'res_depth':
                base['mode'] = op.get('mode')
            if api == 'res_ns':
                # which namespaces are found is one thing, which prefix each of them gets another
                try:
                    gu, ru = sorted({u for _, u in g}), sorted({u for _, u in r})
                    base['diff'] = 'prefix-assignment' if gu == ru else 'namespaces-missing' if set(gu) < set(ru) else 'namespaces'
                except (TypeError, ValueError):
                    base['diff'] = 'shape'
            return base
        return None

    def shrink(self, case):
        # coarser delivery first, then simpler channel
        src = case['src']
        plan = src.get('plan') or {}
        sizes = plan.get('sizes') or []
        if plan.get('rest') is not None:
            c = json.loads(json.dumps(case))
            c['src']['plan']['rest'] = None
            yield c
        if len(sizes) > 1:
            for k in range(len(sizes) - 1):
                c = json.loads(json.dumps(case))
                s = c['src']['plan']['sizes']
                s[k:k + 2] = [s[k] + s[k + 1]]
                yield c
            c = json.loads(json.dumps(case))
            c['src']['plan']['sizes'] = sizes[:len(sizes) // 2]
            yield c
        if src['ch'] != 'raw':
            c = json.loads(json.dumps(case))
            c['src']['ch'] = 'raw'
            yield c
        if case['op'].get('thin') is False:
            c = json.loads(json.dumps(case))
            c['op']['thin'] = True
            yield c
        # smaller document of the same entry with the same fault class
        e = self.entries[case['entry']]
        doc = e.docs[case['doc']]
        for di, d in enumerate(e.docs):
            if d.kind == doc.kind and len(d.data) < len(doc.data):
                c = json.loads(json.dumps(case))
                c['doc'] = di
                yield c

    def extra_evidence(self):
        return {'pool_entries': len(self.entries), 'pool_documents': sum(len(e.docs) for e in self.entries.values()),
                'reference_table_entries': len(self.refs),
                'pool_fault_documents_not_rejected_by_reference': [list(x) for x in self.not_rejected][:20]}


def data_diff(lazy, eager):
    """Coarse class of a decoded-data difference (part of the violation's identity)."""
    if isinstance(lazy, dict) and isinstance(eager, dict):
        lk, ek = set(lazy), set(eager)
        def part_of(lv, ev):
            # the lazy value holds some of the same-named children of the eager value
            return lv == ev or (isinstance(ev, list) and (lv in ev or (isinstance(lv, list) and all(x in ev for x in lv))))
        if lk <= ek and lazy != eager and all(k.startswith('@') and lazy[k] == eager[k] or not k.startswith('@') and part_of(lazy[k], eager[k])
                           for k in lk):
            return 'root-children-missing'
        if lk == ek:
            def flat(d):
                out = []
                for k, v in d.items():
                    if not k.startswith('@'):
                        out += [json.dumps(x, sort_keys=True) for x in (v if isinstance(v, list) else [v])]
                return sorted(out)
            if flat(lazy) == flat(eager) and all(lazy[k] == eager[k] for k in lk if k.startswith('@')):
                return 'children-permuted'     # same child values, attached to other same-level tags
            bad = sorted(k for k in lk if lazy[k] != eager[k])
            return 'child-content:' + ('attribute' if all(k.startswith('@') for k in bad) else 'element')
        return 'root-keys-differ'
    if isinstance(lazy, list) and isinstance(eager, list):
        if len(lazy) != len(eager):
            return 'item-count'
        return 'item-content'
    return 'type'


def _short(res):
    s = json.dumps(res, default=repr)
    return s if len(s) < 1500 else s[:1500] + '...'


CHECK = C06
