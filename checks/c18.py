"""
C18 - one schema object can be built and used from many threads with unchanged results.

Engine: simsched (baton-passing real threads, pre-emption at every library function call,
cooperative SimLocks). 2-4 threads each run a program of 1-3 operations of the C10 menu on
one shared schema; scenario classes: schema built before sharing, racing build (every thread
calls build() on a build=False schema first), shared lazy resource. Oracle: every result
equals the pristine sequential reference; after a racing build the global-component
signature equals a sequential build and the build body ran exactly once; no deadlock; a
sequential epilogue on the same object equals the reference (no residue).
"""
import os
import random

from sim import core, canon, ops, histories, simsched
from checks.common import PoolCheck, jcopy, short
from pool.pool import schema_class
from pool import families as families_mod

POLICIES = (
    {'kind': 'uniform', 'p': 0.001}, {'kind': 'uniform', 'p': 0.01}, {'kind': 'uniform', 'p': 0.05},
    {'kind': 'uniform', 'p': 0.2},
    {'kind': 'pct', 'd': 1}, {'kind': 'pct', 'd': 2}, {'kind': 'pct', 'd': 3},
    {'kind': 'targeted', 'k': 3, 'p': 0.8}, {'kind': 'targeted', 'k': 6, 'p': 0.5},
    {'kind': 'sequential'},
)


class C18(PoolCheck):
    PROP = 'C18'
    LEVEL = 'exploration'
    GROUP = 1
    CASE_TIMEOUT = 180.0
    FAMILIES = ('xsitype', 'keys', 'ids', 'fixed', 'subst', 'wild', 'assert11', 'mixed', 'shadow', 'dtd')
    RULE = ("[coverage.distinct_tags = distinct (pre-empted function > resumed function) switch pairs over the batch] "
            "case = (family, scenario [built | racing_build | shared_lazy_resource | defused programs], 2-4 thread programs of 1-3 "
            "operations each, schedule policy [uniform switching p in {0.001,0.01,0.05,0.2} | PCT d in {1,2,3} | "
            "targeted switching on entry to a random subset of shared-state functions | run-to-completion "
            "permutation], sequential epilogue). The scheduler switches threads only at function-call events inside "
            "xmlschema/elementpath and at SimLock operations; the recorded schedule [(thread, n_points), ...] is the "
            "replay trace. Distinct = the interleaving hash (sequence of (pre-empted function -> resumed function) "
            "pairs). Non-trivial iff >= 1 switch happened while >= 2 threads were inside their programs.")
    ASSUMPTIONS = [
        "threads are serialised: one runs at a time and switches happen at call granularity inside the library "
        "(the granularity the property's quantifier names); data races below that granularity are not explored",
        "the free-running stress clause of the quantifier is deliberately not built (not replayable; DESIGN.md 2.4)",
        "reference = the same operation on a pristine forked copy, single-threaded",
        "documents that trigger loading of additional schemas during validation are excluded, as the statement says",
    ]
    REAL_STUB = {
        'real': ['xmlschema', 'elementpath', 'real threading.Thread objects (parked, released one at a time)'],
        'stub': ['the thread scheduler (baton + sys.settrace call events)',
                 'library locks (SimLock for build lock, cache lock, lazy lock, fp lock, elementpath collation lock)'],
    }

    def ref_ops(self, entry, doc):
        return [op for op in histories.menu(entry)]

    def eval_ref(self, entry, doc, rop):
        env = ops.Env(os.path.join(self.scratch, f'ref-{os.getpid()}'))
        try:
            op = dict(rop, doc=entry.docs.index(doc))
            return histories.exec_op(entry.schema, entry, env, op)['res']
        finally:
            env.cleanup()

    def post_setup(self):
        # unbuilt twins for the racing-build scenario, and the reference component signature
        self.unbuilt = {}
        for key in self.keys:
            e = self.entries[key]
            self.unbuilt[key] = e.family.assemble(os.path.dirname(e.main_path), schema_class(e.version), build=False)
        res = core.parallel_map(lambda k: jcopy(histories.globals_signature(self.entries[k].schema)), self.keys)
        self.globals = dict(zip(self.keys, res))
        # the same twins with use_meta=False: their maps own the meta-schema documents too, registered by every build
        self.unbuilt_nometa = {}
        for key in self.keys:
            e = self.entries[key]
            if type(e.family).assemble is families_mod.Family.assemble and not getattr(e.family, 'defused', False):
                try:
                    self.unbuilt_nometa[key] = schema_class(e.version)(e.main_path, build=False, use_meta=False)
                except Exception:
                    pass

        def seq_sig(k):
            sch = self.unbuilt_nometa[k]
            sch.build()
            return jcopy(histories.globals_signature(sch))
        nk = sorted(self.unbuilt_nometa)
        self.globals_nometa = dict(zip(nk, core.parallel_map(seq_sig, nk)))     # built in forked children only

    def n_cases(self, tier):
        return 2500 if tier == 'quick' else 100000

    def gen_case(self, rng, index):
        # half of the runs use the families whose validation touches state shared between calls
        hot = [k for k in self.keys if k.startswith(('xsitype/', 'fixed/', 'dtd/'))]
        key = rng.choice(hot) if hot and rng.random() < 0.5 else rng.choice(self.keys)
        e = self.entries[key]
        m = [op for op in histories.menu(e)]
        scenario = rng.choice(['built', 'built', 'racing_build', 'racing_build', 'shared_lazy', 'shared_resource'])
        if getattr(e.family, 'defused', False) and scenario in ('shared_lazy', 'shared_resource'):
            scenario = 'built'      # every call builds its own defused resource
        nthreads = rng.choice([2, 2, 3, 4])
        # small colliding pools: with 2 documents every thread pair works on the same or the sibling document
        pool = rng.sample(range(len(e.docs)), min(len(e.docs), rng.choice([2, 2, 3, 4])))
        programs = []
        for t in range(nthreads):
            prog = []
            for _ in range(rng.randrange(1, 4)):
                op = dict(rng.choice(m))
                if scenario == 'shared_lazy':
                    op = dict(rng.choice([o for o in m if o.get('lazy')]))
                elif scenario == 'shared_resource':
                    # one fully loaded XMLResource object used by every thread; path= operations build its
                    # parent map / XPath tree on first use
                    cand = [o for o in m if not o.get('lazy') and o['api'] in ('iter_errors', 'is_valid', 'decode_lax',
                                                                              'validate', 'iter_decode')]
                    op = dict(rng.choice([o for o in cand if o.get('path')] or cand) if rng.random() < 0.7
                              else rng.choice(cand))
                op['doc'] = pool[0] if scenario in ('shared_lazy', 'shared_resource') else rng.choice(pool)
                prog.append(op)
            programs.append(prog)
        epilogue = dict(rng.choice(m))
        epilogue['doc'] = rng.choice(pool)
        policy = dict(rng.choice(POLICIES))
        build_first = [True] * nthreads
        if scenario == 'racing_build' and rng.random() < 0.35:
            # an observer: a thread that never calls build() and only POLLS the schema's status properties while the
            # others build (waiting for a schema somebody else builds); what it reads is not judged
            programs.append([{'api': 'poll', 'doc': pool[0]} for _ in range(rng.randrange(1, 6))])
            build_first.append(False)
        # (a variation in which some threads USE the schema without calling build() while another thread builds it
        # was tried and withdrawn: on the unchanged tree such a user breaks the builders themselves - lazy component
        # builds outside the lock end in XMLSchemaCircularityError - and neither the statement nor the library's API
        # covers using a build=False schema before its build() has returned; see DESIGN.md 9)
        nometa = bool(scenario == 'racing_build' and key in self.unbuilt_nometa and rng.random() < 0.25)
        if nometa:
            # schema-level find() lists the global elements of the maps: with use_meta=False those include the
            # meta-schema's, so that probe has no counterpart in the reference table
            for prog in programs:
                for op in prog:
                    if op['api'] == 'find':
                        op.update(api='iter_errors', lazy=0)
            if epilogue['api'] == 'find':
                epilogue = dict(epilogue, api='iter_errors', lazy=0)
        lines = rng.random() < (0.25 if self.tier == 'quick' else 0.5)
        line_file = rng.choice(simsched.LINE_FILES) if rng.random() < 0.12 else None
        return {'entry': key, 'scenario': scenario, 'programs': programs, 'epilogue': epilogue, 'build_first': build_first,
                'policy': policy, 'sseed': rng.randrange(1 << 30), 'knobs': histories.gen_knobs(rng),
                'lines': lines or line_file is not None, 'nometa': nometa, 'line_file': line_file}

    # ------------------------------------------------------------------
    def run_case(self, case):
        import xmlschema
        e = self.entries[case['entry']]
        scenario = case['scenario']
        schema = self.unbuilt[case['entry']] if scenario == 'racing_build' else e.schema
        ref_globals = self.globals[case['entry']]
        if scenario == 'racing_build' and case.get('nometa'):
            schema = self.unbuilt_nometa[case['entry']]
            ref_globals = self.globals_nometa[case['entry']]
        histories.apply_knobs(schema, case.get('knobs'))
        sched = simsched.Scheduler(random.Random(case['sseed']), case['policy'], replay=case.get('schedule'),
                                   line_level=bool(case.get('lines')), line_file=case.get('line_file'))
        simsched.install_locks(sched, [schema])
        env = self.new_env()
        counters = {}
        violations = []
        load_calls = [0]
        maps = schema.maps

        # count executions of the build body on this maps object
        import xmlschema.validators.builders as builders
        orig_load = builders.GlobalMaps.load

        def counting_load(self_, *a, **kw):
            if self_ is maps.global_maps:
                load_calls[0] += 1
            return orig_load(self_, *a, **kw)
        builders.GlobalMaps.load = counting_load

        shared_res = None
        if scenario in ('shared_lazy', 'shared_resource'):
            shared_res = xmlschema.XMLResource(e.docs[case['programs'][0][0]['doc']].data,
                                               lazy=scenario == 'shared_lazy')
        build_first = case.get('build_first') or [True] * len(case['programs'])

        results = [[None] * len(p) for p in case['programs']]

        def make_body(t, prog):
            def body():
                if scenario == 'racing_build' and build_first[t]:
                    schema.build()
                for i, op in enumerate(prog):
                    if op['api'] == 'poll':
                        try:
                            results[t][i] = {'k': 'poll', 'v': [schema.built, schema.validation_attempted, schema.validity,
                                                                schema.maps.validation_attempted, schema.maps.validity]}
                        except Exception as exc:
                            results[t][i] = canon.canon_exc(exc)
                        continue
                    if shared_res is not None:
                        call = {k: v for k, v in op.items() if k not in ('doc', 'lazy', 'ns')}
                        hooks = {'namespaces': histories.family_ns(e)} if op.get('ns') else {}
                        try:
                            results[t][i] = ops.call_api(schema, shared_res,
                                                         dict(call, lazy=1 if scenario == 'shared_lazy' else 0), hooks)
                        except Exception as exc:
                            results[t][i] = canon.canon_exc(exc)
                    else:
                        results[t][i] = histories.exec_op(schema, e, env, op)['res']
            return body
        try:
            for t, prog in enumerate(case['programs']):
                sched.spawn(make_body(t, prog))
            ok = sched.run()
            builders.GlobalMaps.load = orig_load
            epi = None
            if ok:
                epi = jcopy(histories.exec_op(schema, e, env, case['epilogue'])['res'])
        finally:
            builders.GlobalMaps.load = orig_load
            env.cleanup()

        sigbase = {'family': e.family.name, 'scenario': scenario}
        if case.get('nometa'):
            sigbase['use_meta'] = False
            counters['racing_build_use_meta_false'] = 1
        detail_base = {'case': case, 'schedule_len': len(sched.segments), 'points': sched.points}
        if not ok:
            violations.append({'signature': dict(sigbase, clause='deadlock', locks=sorted(
                str(v) for v in (sched.deadlock or {}).values())),
                'detail': dict(detail_base, deadlock=str(sched.deadlock))})
        else:
            for t, prog in enumerate(case['programs']):
                exc = sched.threads[t]['exc']
                if exc is not None and not (scenario == 'racing_build' and not build_first[t]):
                    violations.append({'signature': dict(sigbase, clause='thread-died', cls=type(exc).__name__,
                                                         msg=canon.template(str(exc))),
                                       'detail': dict(detail_base, thread=t, exc=canon.mask(repr(exc))[:300])})
                    break
                for i, op in enumerate(prog):
                    if op['api'] == 'poll':
                        r = results[t][i] or {}
                        counters['poll_saw_%s' % (r.get('v') or [r.get('cls')])[0]] = 1
                        continue
                    res = jcopy(results[t][i])
                    rop = {k: v for k, v in op.items() if k not in ('doc', 'abort')}
                    ref = self.ref(case['entry'], op['doc'], rop)
                    if res == ref:
                        continue
                    if scenario == 'racing_build' and not build_first[t]:
                        # this thread did not ask for the build: it may meet a schema that is not built yet or only
                        # half built, which the library does not (and is not stated to) protect - its own results are
                        # not judged; the builders' results and the sequential epilogue are, at full strength
                        counters['used_while_building_not_judged'] = counters.get('used_while_building_not_judged', 0) + 1
                        continue
                    if scenario == 'shared_lazy' and res and res.get('k') == 'raise' and \
                            res['cls'] == 'XMLResourceError' and 'already under iteration' in res.get('msg', ''):
                        counters['shared_lazy_refused_documented'] = counters.get('shared_lazy_refused_documented', 0) + 1
                        continue
                    violations.append({'signature': dict(sigbase, clause='differs-from-sequential', api=op['api'],
                                                         diff=diff_class(res, ref)),
                                       'detail': dict(detail_base, thread=t, index=i, op=op,
                                                      doc=e.docs[op['doc']].name, got=short(res, 700), ref=short(ref, 700))})
                    break
                if violations:
                    break
            if not violations and scenario == 'racing_build':
                sig_now = jcopy(histories.globals_signature(schema))
                if sig_now != ref_globals:
                    violations.append({'signature': dict(sigbase, clause='built-state-differs-from-sequential-build'),
                                       'detail': dict(detail_base, n_now=len(sig_now), n_ref=len(ref_globals))})
                if load_calls[0] != 1:
                    violations.append({'signature': dict(sigbase, clause='build-body-ran-not-exactly-once',
                                                         times=load_calls[0]),
                                       'detail': detail_base})
            if not violations:
                op = case['epilogue']
                rop = {k: v for k, v in op.items() if k not in ('doc', 'abort')}
                ref = self.ref(case['entry'], op['doc'], rop)
                if epi != ref:
                    violations.append({'signature': dict(sigbase, clause='epilogue-differs (residue)', api=op['api'],
                                                         diff=diff_class(epi, ref)),
                                       'detail': dict(detail_base, op=op, got=short(epi, 700), ref=short(ref, 700))})
        if scenario == 'shared_resource' and violations:
            # the statement is about sharing one SCHEMA object; a fully loaded XMLResource shared between threads is
            # explored and reported (its lazily built XPath node tree is not thread safe in the dependency), not decided
            counters['shared_resource_mismatch_reported_not_decided'] = 1
            for v in violations:
                k = 'shared_resource_' + v['signature'].get('diff', v['signature']['clause'])
                counters[k] = counters.get(k, 0) + 1
            violations = []
        counters['yield_points'] = sched.points
        counters['switches'] = sched.switches
        counters['switches_with_2_threads_active'] = sched.concurrent_switches
        counters['policy_' + case['policy']['kind']] = 1
        if case.get('line_file'):
            counters['line_level_whole_file_runs'] = 1
        if case.get('lines'):
            counters['line_level_runs'] = 1
            counters['line_level_frames'] = sched.line_frames
        counters['scenario_' + scenario] = 1
        kn = case.get('knobs') or {}
        counters['knob_selectors_prefill_%s' % kn.get('selectors_prefill', 0)] = 1
        counters['knob_use_cache_%s' % kn.get('use_cache', True)] = 1
        for k, v in sched.probes.items():
            counters['probe_' + k] = v
        if scenario == 'racing_build' and sched.probes.get('lock_contended_build_lock'):
            counters['probe_second_thread_entered_build_while_first_held_the_lock'] = 1
        out = {'violations': violations, 'skeleton': sched.interleaving_hash() + '/' + case['entry'] + '/' + scenario,
               'nontrivial': sched.concurrent_switches >= 1, 'counters': counters,
               'digest': core.stable_hash([results, epi, sched.segments]),
               'sample': {'case': {k: v for k, v in case.items() if k != 'schedule'}, 'points': sched.points,
                          'switches': sched.switches, 'schedule_head': sched.segments[:8]}}
        if violations and 'schedule' not in case:
            out['pin'] = dict(case, schedule=sched.segments)
        # (pre-empted function > resumed function) adjacency pairs seen in this run; the batch reports their union
        out['tags'] = sorted(sched.edge_pairs)[:400]
        return out

    def shrink(self, case):
        progs = case['programs']
        if len(progs) > 2:
            for t in range(len(progs)):
                c = jcopy(case)
                del c['programs'][t]
                if c.get('build_first') and t < len(c['build_first']):
                    del c['build_first'][t]
                if 'schedule' in c:
                    c['schedule'] = [[tid - (tid > t), n] for tid, n in c['schedule'] if tid != t]
                yield c
        for t, p in enumerate(progs):
            if len(p) > 1:
                for i in range(len(p)):
                    c = jcopy(case)
                    del c['programs'][t][i]
                    yield c
        sch = case.get('schedule')
        if sch and len(sch) > 1:
            n = len(sch)
            chunk = max(1, n // 2)
            while chunk >= 1:
                for start in range(0, n, chunk):
                    c = jcopy(case)
                    c['schedule'] = sch[:start] + sch[start + chunk:]
                    yield c
                if chunk == 1:
                    break
                chunk //= 2
            # merge neighbouring segments of the same thread
            merged = []
            for tid, k in sch:
                if merged and merged[-1][0] == tid:
                    merged[-1][1] += k
                else:
                    merged.append([tid, k])
            if len(merged) < len(sch):
                c = jcopy(case)
                c['schedule'] = merged
                yield c


def diff_class(res, ref):
    if res is None:
        return 'no-result'
    if res['k'] != ref['k']:
        return f"{res['k']}-vs-{ref['k']}" + (':' + res.get('cls', '') if res['k'] == 'raise' else '')
    if res['k'] == 'raise':
        return 'exception-differs:' + res.get('cls', '')
    a, b = res['v'], ref['v']
    if isinstance(a, bool) or isinstance(b, bool):
        return 'verdict'
    if isinstance(a, list) and isinstance(b, list) and len(a) != len(b):
        return 'fewer' if len(a) < len(b) else 'more'
    return 'content'


CHECK = C18
