"""
C04 (scoped) - one verdict across delivery channels and entry points.

Decided: sentence 2 of the statement (verdict and decoded data do not depend on the source
kind) under every delivery plan, and sentence 1's agreement of is_valid / iter_errors /
validate / strict decode / lax decode / package-level functions on each delivered copy,
including consecutive calls that reuse one seekable file object or one XMLResource.
Also decided since the seeded-change rounds: the validate command (run in process, exit status as
the OS reports it) and skip-mode data of valid documents. Not decided: agreement across validation
options (a pure input question, DESIGN.md 3 C04).
"""
import os
import re

from sim import core, canon, ops, simio
from checks.common import PoolCheck, delivery_facts, merge, short, jcopy, shrink_plan

ENTRY_POINTS = ('is_valid', 'iter_errors', 'validate', 'decode', 'decode_lax', 'decode_skip', 'pkg_to_dict_skip', 'cli', 'cli_pair',
                'pkg_is_valid', 'pkg_iter_errors', 'pkg_validate', 'pkg_to_dict')
CHANNELS = ('bytes', 'text', 'bytesio', 'stringio', 'raw', 'raw', 'buffered', 'textio', 'duck', 'openfile', 'openfile_text',
            'path', 'pathobj', 'fileurl', 'http', 'etree', 'element', 'resource', 'resource_stream',
            'lxml_tree', 'lxml_element')


class C04(PoolCheck):
    PROP = 'C04'
    LEVEL = 'exploration'
    GROUP = 10
    FAMILIES = ('ids', 'keys', 'xsitype', 'subst', 'fixed', 'wild', 'ns', 'mixed', 'assert11', 'multi', 'big', 'shadow', 'idfields', 'simple', 'grouped',
                'deepkey')
    CORPUS = True
    RULE = ("case = (schema family/version, pool document, channel, delivery plan, sequence of 2-5 entry points, "
            "reuse of the source object between calls); every entry point's result is compared with the eager "
            "bytes reference computed in a pristine fork and the entry points are cross-checked against each other. "
            "Skeleton = (family, document fault class, channel, plan class, cut classes, entry-point sequence, reuse). "
            "Non-trivial iff the document was delivered in >= 2 reads with a cut strictly inside the root element, "
            "or one source object served >= 2 calls (the library had to rewind / re-open).")
    ASSUMPTIONS = [
        "reference = iter_errors / lax decode of the same bytes on a pristine forked schema",
        "ElementTree / Element channels are used only for documents without prefix-dependent values",
        "the validate command is run in process (cli.validate with a patched argv); status = SystemExit code & 0xFF",
    ]
    REAL_STUB = {
        'real': ['xmlschema', 'elementpath', 'xml.etree.ElementTree/expat', 'urllib OpenerDirector plumbing',
                 'OS file system for path and file: channels'],
        'stub': ['caller streams (SimRaw/SimBuffered/SimText/SimDuck)', 'remote peer (SimPeer via install_opener)'],
    }

    def ref_ops(self, entry, doc):
        return [{'api': 'iter_errors'}, {'api': 'decode_lax'}, {'api': 'validate'}, {'api': 'decode'}]

    def n_cases(self, tier):
        return 5000 if tier == 'quick' else 600000

    def gen_case(self, rng, index):
        key = rng.choice(self.keys)
        e = self.entries[key]
        di = rng.randrange(len(e.docs))
        doc = e.docs[di]
        while True:
            ch = rng.choice(CHANNELS)
            if ch in ('etree', 'element') and doc.prefix_dep:
                continue
            break
        if rng.random() < 0.03:
            # documents that are not UTF-8, handed over as characters (or as bytes: the declaration decides)
            if not hasattr(self, '_encdocs'):
                self._encdocs = [(k, i) for k in self.keys for i, d in enumerate(self.entries[k].docs)
                                 if simio.declared_encoding(d.data) != 'utf-8']
            if self._encdocs:
                key, di = rng.choice(self._encdocs)
                e = self.entries[key]
                doc = e.docs[di]
                ch = rng.choice(['text', 'stringio', 'textio', 'openfile_text', 'stringio', 'bytesio', 'raw'])
        plan, pclass = simio.gen_plan(rng, doc.data)
        src = {'ch': ch, 'plan': plan, 'pclass': pclass}
        n = rng.randrange(2, 6)
        eps = [rng.choice(ENTRY_POINTS) for _ in range(n)]
        reuse = rng.random() < 0.5
        return {'entry': key, 'doc': di, 'src': src, 'eps': eps, 'reuse': reuse}

    # ------------------------------------------------------------------
    def call_cli(self, entry, data, env, second=None):
        """The validate command, in process: exit status as the OS reports it (low 8 bits)."""
        import io
        import sys
        import contextlib
        from xmlschema import cli
        path = env.path_for(data)
        schema_path = entry.main_path if not str(entry.main_path).startswith('file://') else entry.main_path[7:]
        argv = ['xmlschema-validate', '--schema', schema_path]
        if entry.version == '1.1':
            argv.append('--version=1.1')
        argv.append(path)
        if second is not None:
            argv.append(env.path_for(second))       # one command run over two documents
        saved = sys.argv
        sys.argv = argv
        try:
            with contextlib.redirect_stdout(io.StringIO()), contextlib.redirect_stderr(io.StringIO()):
                try:
                    cli.validate()
                    code = 0
                except SystemExit as exc:
                    code = exc.code if isinstance(exc.code, int) else (0 if exc.code is None else 1)
        except Exception as exc:
            return canon.canon_exc(exc)
        finally:
            sys.argv = saved
        return {'k': 'ok', 'v': ['exit', code & 0xFF]}

    def call(self, schema, source, ep):
        import xmlschema
        try:
            if ep == 'is_valid':
                return {'k': 'ok', 'v': schema.is_valid(source)}
            if ep == 'pkg_is_valid':
                return {'k': 'ok', 'v': xmlschema.is_valid(source, schema)}
            if ep == 'iter_errors':
                return {'k': 'ok', 'v': ops.errors_canon(list(schema.iter_errors(source)))}
            if ep == 'pkg_iter_errors':
                return {'k': 'ok', 'v': ops.errors_canon(list(xmlschema.iter_errors(source, schema)))}
            if ep == 'validate':
                schema.validate(source)
                return {'k': 'ok', 'v': None}
            if ep == 'pkg_validate':
                xmlschema.validate(source, schema)
                return {'k': 'ok', 'v': None}
            if ep == 'decode':
                return {'k': 'ok', 'v': canon.canon_data(schema.decode(source))}
            if ep == 'pkg_to_dict':
                return {'k': 'ok', 'v': canon.canon_data(xmlschema.to_dict(source, schema))}
            if ep == 'decode_skip':
                return {'k': 'ok', 'v': canon.canon_data(schema.decode(source, validation='skip'))}
            if ep == 'pkg_to_dict_skip':
                return {'k': 'ok', 'v': canon.canon_data(xmlschema.to_dict(source, schema, validation='skip'))}
            if ep == 'decode_lax':
                data, errs = schema.decode(source, validation='lax')
                return {'k': 'ok', 'v': [canon.canon_data(data), ops.errors_canon(errs)]}
        except Exception as exc:
            return canon.canon_exc(exc)
        raise ValueError(ep)

    def make(self, env, data, src):
        import xmlschema
        if src['ch'] == 'resource_stream':
            s2 = dict(src, ch='raw')
            stream, core_ = ops.make_source(env, data, s2)
            return xmlschema.XMLResource(stream), core_
        return ops.make_source(env, data, src)

    def run_case(self, case):
        e = self.entries[case['entry']]
        doc = e.docs[case['doc']]
        data = doc.data
        src = case['src']
        env = self.new_env()
        counters = {}
        got = []
        cores = []
        try:
            source = core_ = None
            for k, ep in enumerate(case['eps']):
                if source is None or not case['reuse']:
                    try:
                        source, core_ = self.make(env, data, src)
                    except Exception as exc:
                        got.append(canon.canon_exc(exc))
                        source = None
                        continue
                    if core_ is not None:
                        cores.append(core_)
                if ep == 'cli':
                    got.append(jcopy(self.call_cli(e, data, env)))
                    continue
                if ep == 'cli_pair':
                    partner = (case['doc'] + 1) % len(e.docs)
                    r2 = self.ref(case['entry'], partner, {'api': 'iter_errors'})
                    res = jcopy(self.call_cli(e, data, env, second=e.docs[partner].data))
                    if res['k'] == 'ok':
                        res['v'] = ['exit2', res['v'][1], len(r2['v']) if r2['k'] == 'ok' else None]
                    got.append(res)
                    continue
                got.append(jcopy(self.call(e.schema, source, ep)))
        finally:
            env.cleanup()

        ref_errs = self.ref(case['entry'], case['doc'], {'api': 'iter_errors'})
        ref_dec = self.ref(case['entry'], case['doc'], {'api': 'decode_lax'})
        self.ref_strict = {'validate': self.ref(case['entry'], case['doc'], {'api': 'validate'}),
                           'decode': self.ref(case['entry'], case['doc'], {'api': 'decode'})}
        violations = []
        # sentence 1 on the reference itself (channel independent: an input-level disagreement
        # between entry points is reported once, with where='reference')
        rsig = self.reference_consistency(ref_errs, ref_dec, self.ref_strict)
        if rsig is not None:
            violations.append({'signature': rsig, 'detail': {
                'entry': case['entry'], 'doc': doc.name, 'ref_errors': short(ref_errs, 500),
                'ref_decode_errors': short(ref_dec['v'][1] if ref_dec['k'] == 'ok' else ref_dec, 500),
                'ref_validate': short(self.ref_strict['validate'], 400),
                'ref_decode_strict': short(self.ref_strict['decode'], 400)}})
        if src['ch'] in ('etree', 'element'):
            # parsed trees carry no prefix information: names in messages, paths and data keys
            # are spelled differently by design. Compare class/element sequences; data only
            # for documents without namespaces.
            ref_errs, ref_dec = tree_view(ref_errs), tree_view(ref_dec, data.find(b'xmlns') < 0)
            self.ref_strict = {k: tree_view(v, data.find(b'xmlns') < 0) for k, v in self.ref_strict.items()}
            got = [tree_view(g, data.find(b'xmlns') < 0) for g in got]
        if src['ch'] in ('lxml_tree', 'lxml_element'):
            # an lxml tree knows the namespaces in scope (so QName values and xsi:type resolve as in the text),
            # but not WHERE a prefix was (re)declared: the '@xmlns' items of decoded data are left out
            ref_errs, ref_dec = strip_xmlns(ref_errs), strip_xmlns(ref_dec)
            self.ref_strict = {k: strip_xmlns(v) for k, v in self.ref_strict.items()}
            got = [strip_xmlns(g) for g in got]
            root_end = data.find(b'>', data.find(b'<', data.find(b'?>') + 2))
            if b'xmlns' in data[root_end:]:
                # namespaces (re)declared BELOW the root: which of two prefixes bound to one namespace names a
                # decoded key depends on declarations an lxml tree does not record - verdicts and errors are
                # compared in full, decoded data only as present / absent
                ref_dec = drop_data(ref_dec)
                self.ref_strict = {k: (drop_data(v) if k.startswith('decode') else v)
                                   for k, v in self.ref_strict.items()}
                got = [drop_data(g) if ep.startswith(('decode', 'pkg_to_dict')) else g
                       for ep, g in zip(case['eps'], got)]
        for k, (ep, g) in enumerate(zip(case['eps'], got)):
            sig = self.judge(ep, g, ref_errs, ref_dec)
            if sig is not None:
                sig['channel_class'] = chan_class(src['ch'])
                sig['call'] = 'first' if k == 0 or not case['reuse'] else 'reused-source'
                if sig['channel_class'] == 'lxml':
                    body = data[data.find(b'?>') + 2:]
                    if b'<!--' in body or b'<?' in body:
                        sig['comment_or_pi_in_body'] = True      # lxml keeps them as nodes with their own tails
                violations.append({'signature': sig, 'detail': {
                    'entry': case['entry'], 'doc': doc.name, 'src': src, 'eps': case['eps'], 'k': k,
                    'reuse': case['reuse'], 'got': short(g), 'ref_errors': short(ref_errs, 600),
                    'ref_decode': short(ref_dec, 600)}})
                break

        inside = []
        cclasses = []
        for c in cores[:1]:
            inside, cclasses, cnt = delivery_facts(data, src, c)
            merge(counters, cnt)
        if not cores:
            inside, cclasses, cnt = delivery_facts(data, src, None)
            merge(counters, cnt)
        rewinds = sum(c.rewinds for c in cores)
        counters['channel_' + src['ch']] = 1
        counters['source_reused_calls'] = len(case['eps']) - 1 if case['reuse'] else 0
        if rewinds > 1:
            counters['probe_library_rewound_a_reused_stream'] = 1
        for ep in case['eps']:
            counters['ep_' + ep] = counters.get('ep_' + ep, 0) + 1
        nontrivial = bool(inside) or (case['reuse'] and len(case['eps']) > 1 and src['ch'] not in ('bytes', 'text'))
        skeleton = [e.family.name, doc.kind, src['ch'], src.get('pclass'), cclasses, case['eps'], case['reuse']]
        return {'violations': violations, 'skeleton': skeleton, 'nontrivial': nontrivial,
                'counters': counters, 'digest': core.stable_hash(got),
                'sample': {'case': case, 'results': [g.get('k') for g in got]}}

    def judge(self, ep, g, ref_errs, ref_dec):
        """Compare one entry point's result with what the references imply."""
        base = {'ep': ep.replace('pkg_', ''), 'pkg': ep.startswith('pkg_')}
        name = base['ep']
        if ref_errs['k'] == 'raise' or ref_dec['k'] == 'raise':
            # the reference itself raises (resource-level or library error): every entry point
            # must raise the same class
            want = ref_errs if name in ('is_valid', 'iter_errors', 'validate') else ref_dec
            if want['k'] == 'raise':
                if g['k'] == 'raise' and g['cls'] == want['cls']:
                    return None
                base.update(clause='raise-mismatch', want=want['cls'], got=g.get('cls', 'no-raise'))
                return base
        E = ref_errs['v'] if ref_errs['k'] == 'ok' else None
        if name in ('is_valid', 'iter_errors', 'validate') and E is not None:
            if name == 'is_valid':
                if g['k'] != 'ok' or g['v'] != (not E):
                    base.update(clause='verdict', want=not E, got=g.get('v', g.get('cls')))
                    return base
            elif name == 'iter_errors':
                if g['k'] != 'ok':
                    base.update(clause='raise', cls=g['cls'])
                    return base
                if g['v'] != E:
                    base.update(clause='errors-differ', n_want=min(len(E), 3), n_got=min(len(g['v']), 3))
                    d = first_diff(g['v'], E)
                    if d:
                        base['diff'] = d
                    return base
            else:
                want = self.ref_strict['validate']
                if g != want:
                    base.update(clause='strict-differs-from-reference', got=g.get('cls', g['k']),
                                want=want.get('cls', want['k']))
                    return base
            return None
        if ref_dec['k'] != 'ok':
            return None
        D, DE = ref_dec['v']
        if name == 'cli_pair':
            # one run of the command over two documents: status 0 exactly when both are valid
            if E is None or getattr(self, '_multi_source', False) or g['k'] != 'ok' or g['v'][2] is None:
                return None
            if (g['v'][1] == 0) != (not E and g['v'][2] == 0):
                base.update(clause='cli-exit-status', status=g['v'][1], errors=min(len(E), 300), second=min(g['v'][2], 300))
                return base
            return None
        if name == 'cli':
            # the validate command exits with status 0 exactly when the document is valid
            if E is None or getattr(self, '_multi_source', False):
                return None
            if g['k'] != 'ok':
                base.update(clause='raise', cls=g['cls'])
                return base
            if (g['v'][1] == 0) != (not E):
                base.update(clause='cli-exit-status', status=g['v'][1], errors=min(len(E), 300))
                return base
            return None
        if name in ('decode_skip', 'to_dict_skip'):
            # the decoded data of a VALID document does not depend on the validation mode
            if g['k'] != 'ok':
                base.update(clause='raise', cls=g['cls'])
                return base
            if not DE and E == [] and g['v'] != D:
                base.update(clause='skip-mode-data-differs-for-valid-document')
                return base
            return None
        if name == 'decode_lax':
            if g['k'] != 'ok':
                base.update(clause='raise', cls=g['cls'])
                return base
            if g['v'][1] != DE:
                base.update(clause='errors-differ', n_want=min(len(DE), 3), n_got=min(len(g['v'][1]), 3))
                return base
            if g['v'][0] != D:
                base.update(clause='data')
                return base
            return None
        # strict decode / to_dict
        want = self.ref_strict['decode']
        if g != want:
            base.update(clause='strict-differs-from-reference', got=g.get('cls', g['k']),
                        want=want.get('cls', want['k']))
            if g['k'] == 'ok' and want['k'] == 'ok':
                base['clause'] = 'data'
            return base
        return None

    def reference_consistency(self, ref_errs, ref_dec, strict):
        if ref_errs['k'] != 'ok' or ref_dec['k'] != 'ok':
            return None
        E, (D, DE) = ref_errs['v'], ref_dec['v']
        base = {'where': 'reference'}
        if bool(E) != bool(DE):
            return dict(base, clause='validation-vs-decode-verdict', errors=min(len(E), 3), decode_errors=min(len(DE), 3))
        for name, errs in (('validate', E), ('decode', DE)):
            g = strict[name]
            if not errs:
                if g['k'] != 'ok':
                    return dict(base, clause='raise-on-valid', ep=name, cls=g.get('cls'))
                if name == 'decode' and g['v'] != D:
                    return dict(base, clause='strict-data-differs-from-lax-data')
            else:
                if g['k'] != 'raise':
                    return dict(base, clause='no-raise-on-invalid', ep=name, first=canon.template(errs[0][1]))
                if _same_node(g.get('verr')) != _same_node(errs[0]):
                    return dict(base, clause='strict-not-first-lax', ep=name, cls=g['cls'],
                                first=canon.template(errs[0][1]),
                                raised=canon.template((g.get('verr') or [None, g.get('msg', '')])[1]))
        return None

    def shrink(self, case):
        if len(case['eps']) > 1:
            for k in range(len(case['eps'])):
                c = jcopy(case)
                del c['eps'][k]
                yield c
        yield from shrink_plan(case)
        if case['src']['ch'] not in ('raw', 'bytes'):
            c = jcopy(case)
            c['src']['ch'] = 'raw'
            yield c
        e = self.entries[case['entry']]
        doc = e.docs[case['doc']]
        for di, d in enumerate(e.docs):
            if d.kind == doc.kind and len(d.data) < len(doc.data):
                c = jcopy(case)
                c['doc'] = di
                yield c


_PATH_NS = re.compile(r'\{[^}]*\}|(?<=/)[A-Za-z_][\w.-]*:')


def _same_node(e):
    """An error with the namespace parts of its path removed: how a path spells the names depends on the namespace
    map that is in force when the path is read (the raised error of a strict run is read inside the scope of the
    failing element, the collected errors of a lax run after the end of the document); steps and positions stay."""
    if isinstance(e, list) and len(e) > 4 and isinstance(e[4], str):
        return e[:4] + [_PATH_NS.sub('', e[4])] + e[5:]
    return e


def _tv_err(e):
    return [e[0], None, e[2] if len(e) > 2 else None, None, None]


def tree_view(res, keep_data=False):
    res = jcopy(res)
    if res['k'] == 'raise':
        if 'verr' in res:
            res['verr'] = _tv_err(res['verr'])
        return res
    v = res['v']
    if isinstance(v, list) and v and v[0] in ('exit', 'exit2'):
        return res       # the command's exit status
    if isinstance(v, list) and len(v) == 2 and isinstance(v[1], list) and \
            (not v[1] or (isinstance(v[1][0], list) and v[1][0] and str(v[1][0][0]).startswith('XMLSchema'))) \
            and not (v and isinstance(v[0], list) and v[0] and str(v[0][0]).startswith('XMLSchema')):
        res['v'] = [v[0] if keep_data else None, [_tv_err(e) for e in v[1]]]
    elif isinstance(v, list) and (not v or (isinstance(v[0], list) and v[0] and str(v[0][0]).startswith('XMLSchema'))):
        res['v'] = [_tv_err(e) for e in v]
    elif not isinstance(v, bool) and v is not None and not keep_data:
        res['v'] = None
    return res


def drop_data(res):
    """Decoded data reduced to present / absent; collected errors and raised exceptions kept in full."""
    res = jcopy(res)
    if res['k'] != 'ok':
        return res
    v = res['v']
    if isinstance(v, list) and v and v[0] in ('exit', 'exit2'):
        return res       # the command's exit status
    if isinstance(v, list) and len(v) == 2 and isinstance(v[1], list) and \
            (not v[1] or (isinstance(v[1][0], list) and v[1][0] and str(v[1][0][0]).startswith('XMLSchema'))) \
            and not (v and isinstance(v[0], list) and v[0] and str(v[0][0]).startswith('XMLSchema')):
        res['v'] = [None if v[0] is None else 'DATA', v[1]]       # lax decode: (data, errors)
    elif not isinstance(v, bool) and v is not None:
        res['v'] = 'DATA'
    return res


def strip_xmlns(x):
    if isinstance(x, dict):
        return {k: strip_xmlns(v) for k, v in x.items()}
    if isinstance(x, list):
        if len(x) == 2 and x[0] == 'map' and isinstance(x[1], list):
            items = [[k, strip_xmlns(v)] for k, v in x[1] if not (isinstance(k, str) and k.startswith('@xmlns'))]
            return ['map', items] if items or not x[1] else None     # only declarations: decodes to None without them
        return [strip_xmlns(v) for v in x]
    return x


def chan_class(ch):
    if ch in ('raw', 'buffered', 'textio', 'duck', 'resource_stream', 'openfile', 'openfile_text'):
        return 'stream'
    if ch in ('path', 'pathobj', 'fileurl', 'http'):
        return 'url'
    if ch in ('etree', 'element'):
        return 'tree'
    if ch in ('lxml_tree', 'lxml_element'):
        return 'lxml'
    return 'memory'


def first_diff(got, want):
    for k in range(max(len(got), len(want))):
        a = got[k] if k < len(got) else None
        b = want[k] if k < len(want) else None
        if a != b:
            fields = ['class', 'reason', 'elem', 'obj', 'path']
            if a is None or b is None:
                return 'length'
            for i, f in enumerate(fields):
                if i < len(a) and i < len(b) and a[i] != b[i]:
                    return f
            return 'other'
    return None


CHECK = C04
