"""
C09 (scoped: the history half) - a schema means the same however it is assembled and stored.

Decided: the same set of source documents registered in any order (list constructor,
add_schema / import_schema / include_schema on a build=False schema), build() called again,
maps.clear()+build(), copy, pickle -> unpickle (in-process and in a fresh interpreter under
another PYTHONHASHSEED) at any point of a usage history - all yield the same global
components and the same results on the family's probe documents.
Not decided: permuting declarations inside a document, splitting a document into includes,
re-spelling schemaLocation (rewrites of the input text; DESIGN.md 3 C09).
"""
import copy
import json
import os
import pickle
import subprocess
import sys

from sim import core, canon, ops, histories
from checks.common import PoolCheck, jcopy, short
from pool.pool import schema_class
from pool import families

STEPS = ('use', 'use', 'build_again', 'clear_build', 'copy', 'pickle', 'maps_copy', 'failed_load_namespace', 'maps_copy_build', 'second_object')

BROKEN_XSD = '''<xs:schema xmlns:xs="http://www.w3.org/2001/XMLSchema" targetNamespace="urn:broken" xmlns:b="urn:broken">
 <xs:element name="e" type="b:Missing"/>
</xs:schema>'''

FRESH_LOADER = r'''
import sys, json, pickle
sys.path.insert(0, %r)
data = sys.stdin.buffer.read()
n = int.from_bytes(data[:8], 'big')
from sim import histories, ops, canon
from pool import pool, families
pool.install_pool_peer()          # the simulated peer behind the pool's remote location hints
docs, rebuild = pickle.loads(data[8 + n:])
out = {'probes': []}
if rebuild:
    # the restart proper: the FIRST schema this interpreter builds is the family's schema, from its source files
    try:
        fam = families.FAMILIES[rebuild['family']]
        first = fam.assemble(rebuild['dir'], pool.schema_class(rebuild['version']))
        out['rebuilt_globals'] = histories.globals_signature(first)
        fblob = pickle.dumps(first)
        out['rebuilt_probes'] = []
        for d in docs:
            for api in ('iter_errors', 'decode_lax'):
                try:
                    out['rebuilt_probes'].append(ops.call_api(pickle.loads(fblob), d, {'api': api}))
                except Exception as exc:
                    out['rebuilt_probes'].append(canon.canon_exc(exc))
    except Exception as exc:
        out['rebuilt_raise'] = canon.canon_exc(exc)
schema = pickle.loads(data[8:8 + n])
out['globals'] = histories.globals_signature(schema)
blob = data[8:8 + n]
for d in docs:
    for api in ('iter_errors', 'decode_lax'):
        s2 = pickle.loads(blob)      # every probe on its own restored copy
        try:
            out['probes'].append(ops.call_api(s2, d, {'api': api}))
        except Exception as exc:
            out['probes'].append(canon.canon_exc(exc))
sys.stdout.write(json.dumps(out, default=repr))
'''


class C09(PoolCheck):
    PROP = 'C09'
    LEVEL = 'exploration'
    GROUP = 1
    CASE_TIMEOUT = 180.0
    FAMILIES = ('multi', 'multi2', 'chameleon', 'xsitype', 'keys', 'subst', 'fixed', 'ids', 'assert11', 'wild', 'ondemand', 'laxbuilt', 'grouped', 'simple', 'vcond', 'redefchain')
    RULE = ("case = (family, assembly variant [canonical | list constructor with a permuted order of the extra "
            "sources | build=False + add_schema/import_schema/include_schema in a permuted order + build()], then a "
            "seeded sequence of lifecycle steps [use an operation of the C10 menu, build() again, maps.clear()+build(), "
            "copy, maps.copy, pickle round trip] and an optional final restart in a FRESH interpreter (only the "
            "pickled bytes cross, PYTHONHASHSEED differs)); observation = sorted (kind, qualified name, built, error "
            "count) of every global component + substitution groups + iter_errors / lax decode of every probe "
            "document. Skeleton = (family, assembly, step kinds, restart). Non-trivial iff the assembly is not the "
            "canonical one or at least one lifecycle step other than 'use' was executed.")
    ASSUMPTIONS = [
        "reference = the canonical assembly in a pristine forked process",
        "global components are observed through the public namespace views; iter_globals() is a secondary clause",
        "textual permutation / include-splitting / location re-spelling are not examined (scoped claim)",
    ]
    REAL_STUB = {
        'real': ['xmlschema (schema construction, loaders, XsdGlobals.build/clear/copy, __getstate__/__setstate__)',
                 'pickle', 'a real second interpreter process for restarts'],
        'stub': [],
    }

    def setup(self, tier, master_seed):
        super().setup(tier, master_seed)

    def ref_ops(self, entry, doc):
        return [{'api': 'iter_errors'}, {'api': 'decode_lax'}]

    def post_setup(self):
        items = [(k, None, {'api': 'globals'}) for k in self.keys]
        res = core.parallel_map(self._eval_globals, items)
        self.globals = {k: r for (k, _, _), r in zip(items, res)}

    def _eval_globals(self, item):
        return jcopy(histories.globals_signature(self.entries[item[0]].schema))

    def n_cases(self, tier):
        return 600 if tier == 'quick' else 25000

    def gen_case(self, rng, index):
        key = rng.choice(self.keys)
        e = self.entries[key]
        fam = e.family
        assembly = {'kind': 'canonical'}
        if fam.name == 'multi2':
            order = list(fam.extra)
            rng.shuffle(order)
            kind = rng.choice(['list', 'list', 'add', 'add', 'mixed'])
            assembly = {'kind': kind, 'order': order}
        elif fam.name == 'chameleon':
            kind = rng.choice(['list', 'list', 'add', 'import'])
            order = ['nons.xsd', 'ct.xsd']
            if rng.random() < 0.6:
                order.reverse()
            assembly = {'kind': kind, 'order': order}
        elif fam.name == 'multi':
            kind = rng.choice(['canonical', 'list_extra', 'add_extra', 'preimport'])
            order = ['other.xsd', 'third.xsd', 'inc2.xsd', 'inc1.xsd']
            rng.shuffle(order)
            assembly = {'kind': kind, 'order': order[:rng.randrange(1, 5)],
                        'spell': [rng.randrange(6) for _ in range(4)]}
        else:
            assembly = {'kind': rng.choice(getattr(fam, 'assemblies', ['canonical', 'build_false', 'text_source']))}
        steps = []
        m = histories.menu(e)
        # a family that loads namespaces on demand: documents that extend the schema are kept out of the 'use' steps
        # (what a used schema then answers is C10's question), the probes meet them on the stored/restored object
        usable = [i for i, d in enumerate(e.docs) if not hasattr(fam, 'peer_pages') or d.name.startswith('od-valid-plain')
                  or d.name == 'od-plain-baditem']
        # (a schema built with validation='lax' accepts an unbuildable namespace instead of rolling it back)
        steps_menu = [x for x in STEPS if x != 'failed_load_namespace' or fam.name != 'laxbuilt']
        for _ in range(rng.randrange(0, 6)):
            st = rng.choice(steps_menu)
            if st == 'use':
                op = dict(rng.choice(m))
                op['doc'] = rng.choice(usable)
                steps.append({'step': 'use', 'op': op})
            else:
                steps.append({'step': st})
        fresh = rng.random() < (0.15 if self.tier == 'quick' else 0.1)
        return {'entry': key, 'assembly': assembly, 'steps': steps, 'fresh': fresh,
                'hashseed': rng.randrange(1, 1000)}

    # ------------------------------------------------------------------
    def assemble(self, entry, assembly):
        fam = entry.family
        cls = schema_class(entry.version)
        d = os.path.dirname(entry.main_path)
        kind = assembly['kind']
        if kind == 'canonical':
            return fam.assemble(d, cls)
        if kind == 'build_false':
            s = fam.assemble(d, cls, build=False)
            s.build()
            return s
        if kind == 'text_source':
            with open(entry.main_path) as fp:
                return cls(fp.read(), base_url=d)
        if fam.name == 'chameleon':
            order = assembly['order']
            if kind == 'list':
                return fam.assemble(d, cls, order=order)
            s = cls(os.path.join(d, order[0]), build=False)
            p = os.path.join(d, order[1])
            if kind == 'import':
                s.import_schema('urn:c' if order[1] == 'ct.xsd' else '', p)
            else:
                s.add_schema(p)
            s.build()
            return s
        if fam.name == 'multi2':
            order = assembly['order']
            if kind == 'list':
                return fam.assemble(d, cls, order=order)
            s = cls(os.path.join(d, 'main2.xsd'), build=False)
            for i, name in enumerate(order):
                p = os.path.join(d, name)
                if kind == 'mixed' and name == 'part2.xsd':
                    s.include_schema(p)
                elif kind == 'mixed' and i % 2:
                    ns = {'other2.xsd': 'urn:o', 'third2.xsd': 'urn:p', 'part2.xsd': 'urn:m'}[name]
                    s.import_schema(ns, p) if ns != 'urn:m' else s.add_schema(p)
                else:
                    s.add_schema(p)
            s.build()
            return s
        # multi: everything is reachable from main.xsd; registering parts first must not matter, however the
        # caller spells the location of the same file
        main = os.path.join(d, 'main.xsd')
        # a bare relative name is meaningful only where the API resolves it against the main schema's base URL
        extra = [spell(d, n, sp if (sp != 5 or kind == 'list_extra') else 0)
                 for n, sp in zip(assembly['order'], assembly.get('spell') or [0] * 9)]
        if kind == 'list_extra':
            return cls([main] + extra)
        if kind == 'add_extra':
            s = cls(main, build=False)
            for p in extra:
                s.add_schema(p)
            s.build()
            return s
        # preimport: a build=False schema, import/include explicitly before build
        s = cls(main, build=False)
        for p in extra:
            name = os.path.basename(p)
            if name.startswith('inc'):
                s.include_schema(p)
            else:
                s.import_schema({'other.xsd': 'urn:o', 'third.xsd': 'urn:p'}[name], p)
        s.build()
        return s

    def observe(self, schema, entry):
        """Every probe runs on its own forked copy of the object under observation, so that the
        probes do not become a usage history of their own (that is C10's question)."""
        out = {'globals': jcopy(histories.globals_signature(schema)), 'probes': []}

        def probe(data, api):
            try:
                return ops.call_api(schema, data, {'api': api})
            except Exception as exc:
                return canon.canon_exc(exc)
        for d in entry.docs:
            for api in ('iter_errors', 'decode_lax'):
                kind, value = core.fork_call(probe, (d.data, api), timeout=60)
                out['probes'].append(value if kind == 'ok' else {'k': 'harness', 'v': kind})
        return out

    def run_case(self, case):
        e = self.entries[case['entry']]
        env = self.new_env()
        counters = {}
        violations = []
        step_kinds = []
        junk = []
        stage = 'assembly'
        try:
            try:
                schema = self.assemble(e, case['assembly'])
                for st in case['steps']:
                    stage = st['step']
                    step_kinds.append(stage)
                    counters['step_' + stage] = counters.get('step_' + stage, 0) + 1
                    if stage == 'use':
                        histories.exec_op(schema, e, env, st['op'])
                    elif stage == 'build_again':
                        schema.build()
                    elif stage == 'clear_build':
                        schema.maps.clear()
                        schema.build()
                    elif stage == 'copy':
                        schema = copy.copy(schema)
                    elif stage == 'maps_copy':
                        mc = schema.maps.copy()      # must not disturb the original, and carries its settings
                        a, b = _settings_view(mc), _settings_view(schema.maps)
                        if a != b:
                            raise MapsCopyDiffers(sorted(k for k in set(a) | set(b) if a.get(k) != b.get(k)))
                    elif stage == 'maps_copy_build':
                        # the history goes on with the copy of the maps, built: what the copy registers in which order
                        # follows the addresses of the schema objects, so the heap is given a seeded shape first
                        junk.append([object() for _ in range((case['hashseed'] * 37 + len(junk)) % 101)])
                        mc = schema.maps.copy()
                        junk.append(schema)
                        mc.build()
                        schema = mc.validator
                    elif stage == 'second_object':
                        # building twice: a second schema object from the same sources while the first is alive (other
                        # addresses, after a seeded amount of unrelated allocations); the history goes on with it
                        junk.append([object() for _ in range((case['hashseed'] * 7 + 13 * len(junk)) % 257)])
                        junk.append(schema)
                        schema = self.assemble(e, case['assembly'])
                        if not schema.built:
                            schema.build()
                    elif stage == 'pickle':
                        schema = pickle.loads(pickle.dumps(schema))
                    elif stage == 'failed_load_namespace':
                        # a document that passes the meta-schema but cannot be built is offered as a location
                        # hint and loaded on demand: the failure must be rolled back without a trace
                        bp = os.path.join(os.path.dirname(e.main_path), 'broken.xsd')
                        if not os.path.exists(bp):
                            with open(bp, 'w') as fp:
                                fp.write(BROKEN_XSD)
                        schema.maps.loader.locations['urn:broken'] = [bp]
                        loaded = schema.maps.loader.load_namespace('urn:broken')
                        counters['failed_load_namespace_returned_%s' % loaded] = 1
                        schema.maps.loader.locations.pop('urn:broken', None)
                        schema.maps.loader.missing_locations.discard(bp)
                stage = 'observe'
                if case['fresh']:
                    obs = self.fresh_observe(schema, e, case['hashseed'])
                    counters['fresh_interpreter_restart'] = 1
                else:
                    obs = self.observe(schema, e)
            except Exception as exc:
                import traceback
                obs = {'raise': type(exc).__name__, 'msg': canon.mask(str(exc))[:300], 'stage': stage,
                       'tb': traceback.format_exc()[-600:]}
        finally:
            env.cleanup()

        sigbase = {'family': e.family.name, 'assembly': case['assembly']['kind']}
        if 'raise' in obs:
            violations.append({'signature': dict(sigbase, clause='lifecycle-step-raised', stage=obs['stage'],
                                                 cls=obs['raise']),
                               'detail': {'case': case, 'obs': obs}})
        else:
            ref_globals = self.globals[case['entry']]
            if 'rebuilt_raise' in obs or ('rebuilt_globals' in obs and obs['rebuilt_globals'] != ref_globals):
                violations.append({'signature': dict(sigbase, clause='first-build-of-a-fresh-interpreter-differs',
                                                     what='raise' if 'rebuilt_raise' in obs else 'globals'),
                                   'detail': {'case': case, 'raise': obs.get('rebuilt_raise'),
                                              'missing': short([g for g in ref_globals if g not in obs.get('rebuilt_globals', ref_globals)], 500),
                                              'extra': short([g for g in obs.get('rebuilt_globals', []) if g not in ref_globals], 500)}})
            elif 'rebuilt_probes' in obs:
                k = 0
                for di, d in enumerate(e.docs):
                    for api in ('iter_errors', 'decode_lax'):
                        ref = self.ref(case['entry'], di, {'api': api})
                        if obs['rebuilt_probes'][k] != ref and not violations:
                            violations.append({'signature': dict(sigbase, clause='first-build-of-a-fresh-interpreter-differs',
                                                                 what='probe', api=api),
                                               'detail': {'case': case, 'doc': d.name, 'got': short(obs['rebuilt_probes'][k], 600),
                                                          'ref': short(ref, 600)}})
                        k += 1
            if violations:
                pass
            elif obs['globals'] != ref_globals:
                missing = [g for g in ref_globals if g not in obs['globals']]
                extra = [g for g in obs['globals'] if g not in ref_globals]
                violations.append({'signature': dict(sigbase, clause='global-components-differ',
                                                     after=step_kinds[-1] if step_kinds else 'assembly',
                                                     fresh=case['fresh']),
                                   'detail': {'case': case, 'missing': short(missing, 600), 'extra': short(extra, 600)}})
            else:
                k = 0
                for di, d in enumerate(e.docs):
                    for api in ('iter_errors', 'decode_lax'):
                        ref = self.ref(case['entry'], di, {'api': api})
                        if obs['probes'][k] != ref:
                            violations.append({'signature': dict(sigbase, clause='probe-result-differs', api=api,
                                                                 involves=sorted(set(step_kinds) - {'use', 'build_again', 'maps_copy'}),
                                                                 used='use' in step_kinds, fresh=case['fresh'],
                                                                 diff=diff_kind(obs['probes'][k], ref)),
                                               'detail': {'case': case, 'doc': d.name, 'got': short(obs['probes'][k], 700),
                                                          'ref': short(ref, 700)}})
                            break
                        k += 1
                    if violations:
                        break
        nontrivial = case['assembly']['kind'] != 'canonical' or any(s != 'use' for s in step_kinds) or case['fresh']
        skeleton = [e.family.name, e.version, case['assembly'], step_kinds, case['fresh']]
        return {'violations': violations, 'skeleton': skeleton, 'nontrivial': nontrivial, 'counters': counters,
                'digest': core.stable_hash(obs), 'sample': {'case': case}}

    def fresh_observe(self, schema, entry, hashseed):
        blob = pickle.dumps(schema)
        rebuild = None
        if entry.family.name in families.FAMILIES and not str(entry.main_path).startswith(('http:', 'file:')):
            rebuild = {'family': entry.family.name, 'version': entry.version, 'dir': os.path.dirname(entry.main_path)}
        docs = pickle.dumps(([d.data for d in entry.docs], rebuild))
        env = dict(os.environ, PYTHONHASHSEED=str(hashseed), PYTHONDONTWRITEBYTECODE='1')
        p = subprocess.run([sys.executable, '-c', FRESH_LOADER % core.VERIF_DIR],
                           input=len(blob).to_bytes(8, 'big') + blob + docs, capture_output=True, env=env, timeout=150)
        if p.returncode != 0:
            raise RuntimeError('fresh interpreter failed: ' + p.stderr.decode()[-400:])
        return json.loads(p.stdout)

    def shrink(self, case):
        if case['steps']:
            for k in range(len(case['steps'])):
                c = jcopy(case)
                del c['steps'][k]
                yield c
        if case['fresh']:
            c = jcopy(case)
            c['fresh'] = False
            yield c
        if case['assembly']['kind'] != 'canonical':
            c = jcopy(case)
            c['assembly'] = {'kind': 'canonical'}
            yield c
        if len(case['assembly'].get('order', [])) > 1 and case['assembly']['kind'] not in ('list', 'add', 'mixed'):
            c = jcopy(case)
            c['assembly']['order'] = c['assembly']['order'][:-1]
            yield c


class MapsCopyDiffers(Exception):
    pass


def _settings_view(maps):
    st = getattr(maps, 'settings', None)
    out = {}
    for k in ('base_url', 'allow', 'defuse', 'timeout', 'converter', 'locations', 'use_fallback', 'use_xpath3',
              'use_meta', 'use_cache', 'uri_mapper', 'opener', 'iterparse', 'loglevel'):
        try:
            out[k] = repr(getattr(st, k))
        except Exception:
            pass
    out['validation'] = getattr(maps, 'validation', None)
    return out


def spell(d, name, how):
    """The same file, spelled by the caller in different ways."""
    p = os.path.join(d, name)
    if how == 1:
        return 'file://' + p
    if how == 2:
        return os.path.join(d, '.', name)
    if how == 3:
        return os.path.join(d, 'nodir', '..', name)
    if how == 4:
        return 'file://' + os.path.join(os.path.dirname(d), os.path.basename(d), '..', os.path.basename(d), name)
    if how == 5:
        return name          # relative: resolved against the main schema's base URL (its own directory)
    return p


def diff_kind(got, ref):
    if got.get('k') != ref.get('k'):
        return f"{got.get('k')}:{got.get('cls', '')}-vs-{ref.get('k')}"
    return 'content'


CHECK = C09
