"""
C13 - defused parsing refuses every entity declaration before any expansion.

Seam: caller streams (class x seekability x delivery plan), the remote peer (constant body
or re-serve), a scratch file tree for local files, the audit monitor for fetches of the
external entity / DTD target. Space: defuse mode x locality x stream class x role x payload
x prolog variant, enumerated (every payload x channel pair at least once per run) with
seeded delivery plans.
"""
import os
import urllib.request

from sim import core, canon, ops, simio
from sim.core import Check
from sim.simio import SimPeer, Monitor, make_stream
from pool.pool import scratch_dir
from checks.common import jcopy, short, shrink_plan

MARK = 'PAYLOAD' + '_MARKER'
EXT_MARK = 'EXTERNAL' + '_SECRET'
MODES = ('always', 'remote', 'nonlocal', 'never')
XSI = 'http://www.w3.org/2001/XMLSchema-instance'

PAYLOADS = ('internal', 'nested', 'parameter', 'external_file', 'external_http', 'unparsed', 'ext_subset',
            'unused', 'attr_only', 'ext_subset_empty_id', 'internal_empty', 'benign_empty_subset', 'benign_element_decl', 'benign_none')
BENIGN = ('benign_empty_subset', 'benign_element_decl', 'benign_none')
PROLOGS = ('plain', 'bom8', 'utf16', 'latin1', 'pad9k', 'pad17k', 'pad66k', 'subsetpad66k', 'standalone', 'standalone')
ROLES = ('instance', 'instance_lazy', 'validate', 'main_schema', 'included', 'imported', 'redefined', 'hinted', 'docapi_schema',
         'schema_from_settings', 'xmldocument_parse', 'ctor_global_maps', 'cli_schema')

# channel catalogue: (name, kind, seekable, url attribute, base_url class)
CHANNELS = []
for kind in ('raw', 'buffered', 'textio', 'duck'):
    for seekable in (True, False):
        for urlattr in (None, 'remote'):
            CHANNELS.append(('%s-%s-%s' % (kind, 'seek' if seekable else 'noseek', urlattr or 'nourl'),
                             kind, seekable, urlattr, None))
for base in (None, 'remote', 'local'):
    CHANNELS.append(('text-base-%s' % base, 'text', True, None, base))
    CHANNELS.append(('bytes-base-%s' % base, 'bytes', True, None, base))
CHANNELS += [('bytesio', 'bytesio', True, None, None), ('stringio', 'stringio', True, None, None),
             ('path', 'path', True, None, None), ('fileurl', 'fileurl', True, None, None),
             ('http', 'http', False, None, None), ('http_opener', 'http_opener', False, None, None),
             # remote URLs WITHOUT a path: their base URL has no network location left ('http:')
             ('http-nopath', 'http_nopath', False, None, None), ('http-query', 'http_query', False, None, None),
             ('opaque-url', 'http_opaque', False, None, None),
             # an object that only has read() and close(): no complete file object, so no source the library takes -
             # refused as a source or defused, never parsed past the pre-parse
             ('reader-only', 'reader_only', False, None, None),
             ('raw-noseek-base-remote', 'raw', False, None, 'remote'),
             ('buffered-noseek-base-remote', 'buffered', False, None, 'remote')]

INSTANCE_XSD = '''<xs:schema xmlns:xs="http://www.w3.org/2001/XMLSchema">
 <xs:element name="root"><xs:complexType mixed="true"><xs:sequence>
   <xs:any processContents="lax" minOccurs="0" maxOccurs="unbounded"/></xs:sequence>
   <xs:anyAttribute processContents="lax"/></xs:complexType></xs:element>
</xs:schema>'''


def doctype(payload, root, secret_file_url, secret_http_url, dtd_url, pad_subset=0):
    pad = ('<!--' + 'p' * 1000 + '-->\n') * pad_subset
    if payload == 'internal' or payload == 'unused' or payload == 'attr_only':
        return f'<!DOCTYPE {root} [\n{pad}<!ENTITY x "{MARK}">\n]>'
    if payload == 'internal_empty':
        # declared with an EMPTY replacement text (general and parameter): still an entity declaration
        return f'<!DOCTYPE {root} [\n{pad}<!ENTITY % p "">\n<!ENTITY e "">\n]>'
    if payload == 'nested':
        return f'<!DOCTYPE {root} [\n{pad}<!ENTITY a "PAYLOAD"><!ENTITY x "&a;_MARKER">\n]>'
    if payload == 'parameter':
        return f'<!DOCTYPE {root} [\n{pad}<!ENTITY % p "<!ENTITY x \'{MARK}\'>">\n%p;\n]>'
    if payload == 'external_file':
        return f'<!DOCTYPE {root} [\n{pad}<!ENTITY x SYSTEM "{secret_file_url}">\n]>'
    if payload == 'external_http':
        return f'<!DOCTYPE {root} [\n{pad}<!ENTITY x SYSTEM "{secret_http_url}">\n]>'
    if payload == 'unparsed':
        return (f'<!DOCTYPE {root} [\n{pad}<!NOTATION n SYSTEM "n"><!ENTITY x SYSTEM "{secret_file_url}" NDATA n>'
                f'<!ATTLIST {root} e ENTITY #IMPLIED>\n]>')
    if payload == 'ext_subset':
        return f'<!DOCTYPE {root} SYSTEM "{dtd_url}">'
    if payload == 'ext_subset_empty_id':
        return f'<!DOCTYPE {root} SYSTEM "">'        # an external subset all the same: the empty system literal
    if payload == 'benign_empty_subset':
        return f'<!DOCTYPE {root} [\n{pad}]>'
    if payload == 'benign_element_decl':
        return f'<!DOCTYPE {root} [\n{pad}<!ELEMENT note ANY>\n]>'
    return ''


def uses_entity(payload):
    return payload in ('internal', 'nested', 'parameter', 'external_file', 'external_http')


def build_doc(payload, prolog, is_schema, urls, tns=None):
    """Returns bytes of an instance (<root>) or schema document carrying the payload."""
    secret_file_url, secret_http_url, dtd_url = urls
    root = 'xs:schema' if is_schema else 'root'
    enc = {'utf16': 'UTF-16', 'latin1': 'ISO-8859-1'}.get(prolog, 'UTF-8')
    sa = ' standalone="yes"' if prolog == 'standalone' else ''
    decl = f'<?xml version="1.0" encoding="{enc}"{sa}?>\n'
    pad = {'pad9k': 9, 'pad17k': 17, 'pad66k': 66}.get(prolog, 0)
    padding = ('<!--' + 'c' * 1016 + '-->\n') * pad
    dt = doctype(payload, root, secret_file_url, secret_http_url, dtd_url,
                 pad_subset=66 if prolog == 'subsetpad66k' else 0)
    ref = '&x;' if uses_entity(payload) else 'plain'
    if is_schema:
        a = ' id="&x;"' if payload == 'attr_only' else ''
        tn = f' targetNamespace="{tns}"' if tns else ''
        body = (f'<xs:schema xmlns:xs="http://www.w3.org/2001/XMLSchema"{tn}{a}>\n'
                f' <xs:annotation><xs:documentation>{ref}</xs:documentation></xs:annotation>\n'
                f' <xs:element name="{"imp" if tns else "inc"}el" type="xs:string"/>\n</xs:schema>\n')
    else:
        a = ' a="&x;"' if payload == 'attr_only' else (' e="x"' if payload == 'unparsed' else '')
        body = f'<root{a}>{ref}<child k="v">t</child></root>\n'
    text = decl + padding + (dt + '\n' if dt else '') + body
    if prolog == 'utf16':
        return text.encode('utf-16')
    if prolog == 'latin1':
        return text.encode('latin-1')
    data = text.encode('utf-8')
    if prolog == 'bom8':
        data = b'\xef\xbb\xbf' + data
    return data


class C13(Check):
    PROP = 'C13'
    LEVEL = 'fault_enumeration'
    POOL_DEPENDS_ON_SEED = False      # cases are self-contained: canonical replays run under every VERIF_SEED
    GROUP = 16
    RULE = ("case = (defuse mode, channel [stream class x seekable x url attribute | text/bytes x base_url class | "
            "path | file URL | http via installed opener | http via opener=], role [instance, lazy instance, instance "
            "through a schema's settings, main schema, included / imported / redefined schema (part on the same or the other "
            "side local/remote), schema reached through an instance hint], payload [9 entity/DTD "
            "payloads + 3 benign], prolog variant [BOM, UTF-16, latin-1, prolog padded past 8/16/64 KiB, internal "
            "subset padded past 64 KiB], delivery plan incl. cuts inside '<!ENTITY', peer behaviour [constant | "
            "re-serve payload-then-benign | benign-then-payload]). Every (payload, channel) pair is enumerated at "
            "least once per run; the other dimensions are seeded. Non-trivial iff the document carries a DOCTYPE, "
            "or the stream is non-seekable, or the peer re-serves.")
    ASSUMPTIONS = [
        "defusing 'applies' is recomputed from the statement: always; remote mode and remote data (remote URL, "
        "remote base_url); nonlocal mode and anything that is not a local file",
        "a stream carrying a remote .url attribute is classed by what XMLResource documents as its base: "
        "not claimed as remote data (recorded separately)",
        "non-seekable text/duck streams and non-seekable buffered streams with a prolog > 64 KiB may be refused "
        "with the library's resource error (stated limit of the mechanism) but never parsed differently",
    ]
    REAL_STUB = {
        'real': ['xmlschema (XMLResource.open, defuse_xml, SafeExpatParser, DefusableReader)', 'xml.dom.pulldom / expat',
                 'xml.etree.ElementTree', 'urllib OpenerDirector plumbing', 'OS files for local channels'],
        'stub': ['caller streams', 'remote peer with re-serve (SimPeer)', 'audit-hook monitor'],
    }

    def setup(self, tier, master_seed):
        import xmlschema
        self.tier = tier
        self.scratch = scratch_dir()
        self.monitor = Monitor.get()
        self.schemas = {m: xmlschema.XMLSchema(INSTANCE_XSD, defuse=m) for m in MODES}
        self.pairs = [(p, c) for p in range(len(PAYLOADS)) for c in range(len(CHANNELS))]

    def n_cases(self, tier):
        return len(self.pairs) * (10 if tier == 'quick' else 2000)

    def gen_case(self, rng, index):
        p, c = self.pairs[index % len(self.pairs)]
        payload = PAYLOADS[p]
        chan = CHANNELS[c]
        mode = rng.choice(MODES[:3]) if rng.random() < 0.85 else 'never'
        role = rng.choice(ROLES)
        prolog = rng.choice(PROLOGS) if rng.random() < 0.6 else 'plain'
        if chan[1] in ('text', 'stringio', 'textio') and prolog in ('bom8', 'utf16', 'latin1'):
            prolog = 'plain'
        if role in ('included', 'imported', 'redefined'):
            chan = rng.choice([x for x in CHANNELS if x[0] in ('path', 'fileurl', 'http', 'http_opener')])
        if role == 'hinted':
            chan = rng.choice([x for x in CHANNELS if x[0] in ('path', 'fileurl', 'http')])
        if role == 'cli_schema':
            # the validate command takes locations only, and knows three modes
            chan = rng.choice([x for x in CHANNELS if x[0] in ('path', 'fileurl', 'http')])
            if mode == 'nonlocal':
                mode = 'always'
        peer = 'constant'
        if role in ('docapi_schema', 'schema_from_settings') and chan[1] in ('raw', 'buffered', 'textio', 'duck', 'stringio', 'bytesio',
                                                                             'reader_only'):
            chan = rng.choice([x for x in CHANNELS if x[0] in ('path', 'fileurl', 'http', 'text-base-None', 'text-base-remote')])
        if chan[1] in ('text', 'stringio', 'textio') and prolog in ('bom8', 'utf16', 'latin1'):
            prolog = 'plain'
        if chan[1] in ('http_nopath', 'http_query', 'http_opaque') and role not in ('instance', 'instance_lazy', 'validate', 'main_schema',
                                                                                       'xmldocument_parse', 'ctor_global_maps'):
            role = rng.choice(['instance', 'instance_lazy', 'validate', 'main_schema'])
        if chan[1] in ('http', 'http_opener') and rng.random() < 0.5:
            peer = rng.choice(['payload_then_benign', 'benign_then_payload', 'broken_then_payload'])
        if peer != 'constant' and role not in ('instance_lazy', 'hinted', 'docapi_schema') and rng.random() < 0.5:
            role = 'instance_lazy'      # a lazy resource opens its source again for every iteration
        case = {'mode': mode, 'chan': chan[0], 'role': role, 'payload': payload, 'prolog': prolog, 'peer': peer,
                'pseed': rng.randrange(1 << 30)}
        if role in ('included', 'imported', 'redefined', 'hinted') and rng.random() < 0.4:
            case['part_locality'] = 'remote' if chan[1] in ('path', 'fileurl') else 'local'
        if chan[1] in ('raw', 'buffered', 'textio', 'duck') and role in ('instance', 'instance_lazy', 'validate') \
                and rng.random() < 0.15:
            case['transient'] = rng.randrange(0, 200)     # one read fails once (e.g. a timeout), the next ones succeed
        return case

    # ------------------------------------------------------------------
    def applies(self, mode, chan, role):
        """Does defusing apply, by the statement's rule. Returns True/False/None (not claimed)."""
        name, kind, seekable, urlattr, base = chan
        if mode == 'always':
            return True
        if mode == 'never':
            return False
        if kind in ('http', 'http_opener', 'http_nopath', 'http_query', 'http_opaque'):
            locality = 'remote'
        elif kind in ('path', 'fileurl'):
            locality = 'local'
        elif base == 'remote':
            locality = 'remote'
        elif base == 'local':
            locality = 'local'
        elif urlattr == 'remote':
            return None          # remote origin only known through the stream's .url: not claimed
        else:
            locality = 'none'    # in-memory data without any location
        if mode == 'remote':
            return locality == 'remote'
        return locality != 'local'   # nonlocal

    def run_case(self, case):
        import xmlschema
        chan = next(c for c in CHANNELS if c[0] == case['chan'])
        name, kind, seekable, urlattr, base = chan
        mode, role, payload, prolog = case['mode'], case['role'], case['payload'], case['prolog']
        world = os.path.join(self.scratch, f'w-{os.getpid()}')
        os.makedirs(world, exist_ok=True)
        counters = {}
        violations = []
        import random
        rng = random.Random(case['pseed'])
        try:
            with open(os.path.join(world, 'secret.txt'), 'w') as fp:
                fp.write(EXT_MARK)
            with open(os.path.join(world, 'ext.dtd'), 'w') as fp:
                fp.write(f'<!ENTITY x "{MARK}">\n')
            urls = ('file://' + os.path.join(world, 'secret.txt'), 'http://sim.test/secret.txt',
                    'file://' + os.path.join(world, 'ext.dtd'))
            is_schema = role in ('main_schema', 'included', 'imported', 'redefined', 'hinted', 'docapi_schema',
                                 'schema_from_settings', 'ctor_global_maps', 'cli_schema')
            tns = 'urn:imp' if role == 'imported' else None
            doc = build_doc(payload, prolog, is_schema, urls, tns)
            benign = build_doc('benign_none', 'plain', is_schema, urls, tns)
            plan, pclass = self.gen_plan(rng, doc)

            def attempt(use_mode, first_benign=False):
                peer = SimPeer()
                peer.pages['http://sim.test/secret.txt'] = EXT_MARK.encode()
                # the origin a stream's .url attribute names answers a (second) fetch with a harmless document:
                # bytes that were never parsed must not be what gets checked
                peer.pages['http://sim.test/stream.xml'] = benign
                peer.install()
                res = self.attempt(xmlschema, world, peer, chan, use_mode, role, doc, benign, plan,
                                   case['peer'], tns, case.get('part_locality'), case.get('transient'))
                res['requests'] = list(peer.log)
                return res

            self.monitor.start([world])
            try:
                got = attempt(mode)
            finally:
                events = self.monitor.stop()
            applies = self.applies(mode, chan, role)
            if case.get('part_locality') and mode in ('remote', 'nonlocal'):
                # the document that carries the payload is the PART: its own locality decides
                applies = case['part_locality'] == 'remote'
            has_payload = payload not in BENIGN
            counters['applies_%s' % applies] = 1
            counters['payload_' + payload] = 1
            counters['role_' + role] = 1
            counters['outcome_' + (got['exc'] or 'parsed')] = 1
            if case['peer'] != 'constant':
                counters['peer_reserve'] = 1
                counters['probe_peer_opened_%d_times' % min(3, got['opens'])] = 1
            fetched_secret = [e for e in events if e[0] == 'open' and e[1].endswith(('secret.txt', 'ext.dtd'))] + \
                             [r for r in got['requests'] if r.endswith('secret.txt')]
            sigbase = {'mode': mode, 'role_class': 'schema' if is_schema else 'instance',
                       'channel_class': chan_class(chan), 'peer': case['peer']}

            if applies and has_payload:
                # S2/S4: nothing parsed contains the marker (checked first: it is the worst outcome)
                if got['marker']:
                    violations.append({'signature': dict(sigbase, clause='entity-expanded', payload=payload),
                                       'detail': {'case': case, 'got': short(got)}})
                elif case.get('transient') is not None and got['exc'] in ('InjectedOSError', 'XMLResourceOSError'):
                    counters['transient_fault_surfaced'] = 1       # the read fault reached the caller: nothing was parsed
                # S1: refused with the forbidden-resource error
                elif case['peer'] != 'constant':
                    counters['reserve_outcome_' + (got['exc'] or 'parsed')] = 1   # which body was parsed is the peer's choice
                elif role == 'hinted' and got['exc'] == 'XMLSchemaValueError' and 'cannot get a schema' in (got['msg'] or ''):
                    # the probe of the hint was refused and the hint skipped: the statement's roles do not include a
                    # schema reached through a hint, so HOW the refusal surfaces is not judged; S2-S4 are
                    counters['hinted_refusal_surfaced_as_no_schema'] = 1
                elif got['exc'] != 'XMLResourceForbidden' and not self.excused(case, chan, got):
                    violations.append({'signature': dict(sigbase, clause='not-refused', payload=payload,
                                                         outcome=got['exc'] or 'parsed'),
                                       'detail': {'case': case, 'got': short(got)}})
                # S3: no fetch of the external target
                if fetched_secret:
                    violations.append({'signature': dict(sigbase, clause='external-fetched', payload=payload),
                                       'detail': {'case': case, 'events': short(fetched_secret)}})
            elif applies is not None and not has_payload and mode != 'never':
                # E: benign documents parse to the same tree with and without defusing
                base_res = attempt('never')
                if base_res['exc'] is None:
                    if got['exc'] is not None:
                        if not self.excused(case, chan, got):
                            violations.append({'signature': dict(sigbase, clause='benign-refused', exc=got['exc'],
                                                                 seekable=seekable, stream=kind,
                                                                 big_prolog=prolog in ('pad66k', 'subsetpad66k')),
                                               'detail': {'case': case, 'got': short(got)}})
                        else:
                            counters['benign_refused_documented_limit'] = 1
                    elif got['tree'] != base_res['tree']:
                        violations.append({'signature': dict(sigbase, clause='benign-tree-differs'),
                                           'detail': {'case': case, 'got': short(got), 'base': short(base_res)}})
                else:
                    counters['benign_unparseable_without_defusing'] = 1
            if applies is None:
                counters['stream_with_remote_url_attr_not_claimed'] = 1
                if has_payload and got['marker']:
                    counters['remote_url_attr_stream_expanded_entity_under_%s' % mode] = 1
        finally:
            import shutil
            shutil.rmtree(world, ignore_errors=True)
        nontrivial = payload != 'benign_none' or not seekable or case['peer'] != 'constant'
        skeleton = [mode, case['chan'], role, payload, prolog, pclass, case['peer'], case.get('part_locality'),
                    case.get('transient') is not None]
        return {'violations': violations, 'skeleton': skeleton, 'nontrivial': nontrivial, 'counters': counters,
                'digest': core.stable_hash([got['exc'], got['marker'], got['tree']]),
                'sample': {'case': case, 'outcome': got['exc'] or 'parsed', 'applies': applies}}

    def excused(self, case, chan, got):
        """Documented limits of the mechanism (never a different parse, only a refusal)."""
        name, kind, seekable, urlattr, base = chan
        if (kind in ('http', 'http_opener', 'http_nopath', 'http_query', 'http_opaque') or case.get('part_locality') == 'remote') and \
                case['prolog'] in ('pad66k', 'subsetpad66k') and \
                (got['exc'] in ('XMLResourceOSError', 'XMLResourceError', 'part-not-loaded') or
                 (case['role'] == 'hinted' and got['exc'] == 'XMLSchemaValueError') or
                 (case['role'] == 'cli_schema' and 'not seekable' in (got.get('msg') or ''))):
            return True      # a peer response is a non-seekable buffered stream: same 64 KiB limit
        if kind == 'reader_only' and got['exc'] == 'XMLSchemaTypeError':
            return True      # not taken as a source at all: nothing was read
        if got['exc'] not in ('XMLResourceOSError', 'XMLResourceError'):
            return False
        if seekable or kind not in ('raw', 'buffered', 'textio', 'duck'):
            return False
        if kind in ('textio', 'duck'):
            return True      # cannot be wrapped: "can't defuse ... not seekable"
        if kind in ('buffered', 'raw') and case['prolog'] in ('pad66k', 'subsetpad66k'):
            return True      # prolog beyond DefusableReader's 64 KiB buffer
        return False

    def gen_plan(self, rng, doc):
        if rng.random() < 0.3:
            k = doc.find(b'<!ENTITY')
            if k < 0:
                k = doc.find('<!ENTITY'.encode('utf-16')[2:])
            if k > 0:
                cut = k + rng.randrange(1, 8)
                return {'sizes': [cut], 'rest': rng.choice([None, 3, 64])}, 'inside-entity-token'
        return simio.gen_plan(rng, doc)

    def attempt(self, xmlschema, world, peer, chan, mode, role, doc, benign, plan, peerbeh, tns,
                part_locality=None, transient=None):
        """One construction under `mode`; returns exc class, marker presence, canonical tree."""
        name, kind, seekable, urlattr, base = chan
        bodies = {'constant': [doc], 'payload_then_benign': [doc, benign], 'benign_then_payload': [benign, doc],
                  # the first transfer breaks in mid-body (while the check is reading), the next one is complete
                  'broken_then_payload': [['eio', max(8, len(doc) // 3), doc], doc]}[peerbeh]
        out = {'exc': None, 'marker': False, 'tree': None, 'opens': 0, 'msg': None}
        base_url = {None: None, 'remote': 'http://sim.test/base/', 'local': world + '/'}[base]
        opener = None
        trees = []

        def source_for(data, fname, url):
            nonlocal opener
            if kind == 'text':
                return data.decode('utf-8')
            if kind == 'bytes':
                return data
            if kind == 'bytesio':
                import io
                return io.BytesIO(data)
            if kind == 'stringio':
                import io
                return io.StringIO(data.decode('utf-8'))
            if kind in ('raw', 'buffered', 'textio', 'duck'):
                k = {'textio': 'text'}.get(kind, kind)
                d = data.decode('utf-8') if kind == 'textio' else data
                return make_stream(k, d, plan=plan, seekable=seekable,
                                   faults={'eio_once': transient} if transient is not None else None,
                                   url='http://sim.test/stream.xml' if urlattr else None)
            if kind == 'reader_only':
                return ReaderOnly(data)
            if kind in ('path', 'fileurl'):
                p = os.path.join(world, fname)
                with open(p, 'wb') as fp:
                    fp.write(data)
                return p if kind == 'path' else 'file://' + p
            # http
            if kind == 'http_nopath':
                url = 'http://sim.test'
            elif kind == 'http_query':
                url = 'http://sim.test?doc=1'
            elif kind == 'http_opaque':
                url = 'stub:doc.xml'        # a non-local scheme without any '/': its "directory" is empty
            peer.pages[url] = bodies if data is doc else [data]
            peer.plans[url] = plan
            if kind == 'http_opener':
                opener = peer.opener
            return url

        try:
            if role in ('instance', 'instance_lazy'):
                src = source_for(doc, 'doc.xml', 'http://sim.test/doc.xml')
                res = xmlschema.XMLResource(src, base_url=base_url, defuse=mode, opener=opener,
                                            lazy=role == 'instance_lazy')
                trees.append(res.root)
                if role == 'instance_lazy':
                    for e in res.iter_depth(mode=1):
                        trees.append(_copy_elem(e))
                    trees.append(res.root)
            elif role == 'validate':
                src = source_for(doc, 'doc.xml', 'http://sim.test/doc.xml')
                if base_url is not None or opener is not None:
                    schema = xmlschema.XMLSchema(INSTANCE_XSD, defuse=mode)
                    res = xmlschema.XMLResource(src, base_url=base_url, defuse=mode, opener=opener)
                    trees.append(res.root)
                    data, errs = schema.decode(res, validation='lax')
                else:
                    data, errs = self.schemas[mode].decode(src, validation='lax')
                out['tree'] = canon.canon_data(data)
                if MARK in repr(out['tree']) or EXT_MARK in repr(out['tree']):
                    out['marker'] = True
            elif role == 'main_schema':
                src = source_for(doc, 'main.xsd', 'http://sim.test/main.xsd')
                schema = xmlschema.XMLSchema(src, base_url=base_url, defuse=mode, opener=opener)
                trees += [s.root for s in schema.maps.iter_schemas() if s.meta_schema is not None]
            elif role == 'ctor_global_maps':
                # the payload document joins the maps of a harmless schema through the constructor, which is given the
                # defuse mode for this source
                src = source_for(doc, 'main.xsd', 'http://sim.test/main.xsd')
                host = xmlschema.XMLSchema('<xs:schema xmlns:xs="http://www.w3.org/2001/XMLSchema" '
                                           'targetNamespace="urn:c13-host"><xs:element name="host"/></xs:schema>')
                kw = {'opener': opener} if opener is not None else {}
                schema = xmlschema.XMLSchema(src, global_maps=host.maps, base_url=base_url, defuse=mode, **kw)
                trees += [s_.root for s_ in schema.maps.iter_schemas() if s_.meta_schema is not None]
            elif role == 'cli_schema':
                # the validate command, in process: --defuse applies to the schema named by --schema as it does to
                # the instances
                import io
                import sys
                import contextlib
                from xmlschema import cli
                src = source_for(doc, 'main.xsd', 'http://sim.test/main.xsd')
                inst = os.path.join(world, 'inst.xml')
                with open(inst, 'w') as fp:
                    fp.write('<incel>x</incel>')
                saved_argv = sys.argv
                command = cli.validate
                sys.argv = ['xmlschema-validate', '--defuse=' + mode, '--schema', src, inst]
                if __import__('zlib').crc32(doc) % 3 == 0:
                    # the converting command builds the schema once, before it meets the documents
                    command = cli.xml2json
                    sys.argv = ['xmlschema-xml2json', '--defuse=' + mode, '--schema', src, '--force', '-o',
                                os.path.join(world, 'out'), inst]
                sout, serr = io.StringIO(), io.StringIO()
                try:
                    with contextlib.redirect_stdout(sout), contextlib.redirect_stderr(serr):
                        try:
                            command()
                            code = 0
                        except SystemExit as exc_:
                            code = exc_.code if isinstance(exc_.code, int) else (0 if exc_.code is None else 1)
                finally:
                    sys.argv = saved_argv
                text = sout.getvalue() + serr.getvalue()
                if MARK in text or EXT_MARK in text:
                    out['marker'] = True
                if code != 0:
                    out['exc'] = 'XMLResourceForbidden' if 'forbidden' in text.lower() else 'cli-exit-%d' % code
                    out['msg'] = canon.mask(text)[:300]
            elif role == 'schema_from_settings':
                # the alternative constructor: stored settings plus keyword overrides (the defuse mode is an override)
                from xmlschema.settings import SchemaSettings
                src = source_for(doc, 'main.xsd', 'http://sim.test/main.xsd')
                kw = {'base_url': base_url} if base_url is not None else {}
                schema = xmlschema.XMLSchema.from_settings(SchemaSettings(), src, defuse=mode, **kw)
                trees += [s_.root for s_ in schema.maps.iter_schemas() if s_.meta_schema is not None]
            elif role == 'xmldocument_parse':
                # a document object built on harmless data, then asked to parse the payload: the second parse runs
                # with the arguments the object was built with
                src = source_for(doc, 'doc.xml', 'http://sim.test/doc.xml')
                kw = {'base_url': base_url} if base_url is not None else {}
                if opener is not None:
                    kw['opener'] = opener
                xdoc = xmlschema.XmlDocument('<root><child k="v">t</child></root>', schema=self.schemas[mode],
                                             defuse=mode, validation='skip', **kw)
                xdoc.parse(src, lazy=False)
                trees.append(xdoc.root)
            elif role == 'docapi_schema':
                # the document-level API builds the schema from a SOURCE given by the caller, with the defuse argument
                # of the call (xmlschema.validate(doc, schema='main.xsd', defuse='always') and friends)
                src = source_for(doc, 'main.xsd', 'http://sim.test/main.xsd')
                from xmlschema.documents import get_context
                kw = {'base_url': base_url} if base_url is not None else {}
                res, schema = get_context('<incel>x</incel>', schema=src, defuse=mode, **kw)
                trees += [s_.root for s_ in schema.maps.iter_schemas() if s_.meta_schema is not None]
            elif role == 'hinted':
                # a benign INSTANCE whose xsi:noNamespaceSchemaLocation names the payload schema document: the
                # package-level API builds the schema from the hint with the same defuse argument
                part_ref = 'part.xsd'
                if part_locality == 'remote':
                    peer.pages['http://sim.test/other/part.xsd'] = bodies
                    peer.plans['http://sim.test/other/part.xsd'] = plan
                    part_ref = 'http://sim.test/other/part.xsd'
                elif part_locality == 'local':
                    with open(os.path.join(world, 'part.xsd'), 'wb') as fp:
                        fp.write(doc)
                    part_ref = 'file://' + os.path.join(world, 'part.xsd')
                else:
                    source_for(doc, 'part.xsd', 'http://sim.test/part.xsd')
                inst = f'<incel xmlns:xsi="{XSI}" xsi:noNamespaceSchemaLocation="{part_ref}">x</incel>'
                src = source_for(inst.encode(), 'inst.xml', 'http://sim.test/inst.xml')
                from xmlschema.documents import get_context
                res, schema = get_context(src, defuse=mode)
                trees.append(res.root)
                trees += [s.root for s in schema.maps.iter_schemas() if s.meta_schema is not None]
                if not any((s.url or '').endswith('part.xsd') for s in schema.maps.iter_schemas()):
                    out['exc'] = 'part-not-loaded'
            else:
                # benign main document that includes / imports the payload document
                if role in ('included', 'redefined'):
                    tag = 'include' if role == 'included' else 'redefine'
                    main = ('<xs:schema xmlns:xs="http://www.w3.org/2001/XMLSchema">\n'
                            f' <xs:{tag} schemaLocation="part.xsd"/>\n <xs:element name="main" type="xs:int"/>\n</xs:schema>')
                else:
                    main = ('<xs:schema xmlns:xs="http://www.w3.org/2001/XMLSchema">\n'
                            ' <xs:import namespace="urn:imp" schemaLocation="part.xsd"/>\n'
                            ' <xs:element name="main" type="xs:int"/>\n</xs:schema>')
                part_ref = 'part.xsd'
                if part_locality == 'remote':
                    peer.pages['http://sim.test/other/part.xsd'] = bodies
                    peer.plans['http://sim.test/other/part.xsd'] = plan
                    part_ref = 'http://sim.test/other/part.xsd'
                elif part_locality == 'local':
                    with open(os.path.join(world, 'part.xsd'), 'wb') as fp:
                        fp.write(doc)
                    part_ref = 'file://' + os.path.join(world, 'part.xsd')
                else:
                    source_for(doc, 'part.xsd', 'http://sim.test/part.xsd')
                main = main.replace('schemaLocation="part.xsd"', f'schemaLocation="{part_ref}"')
                src = source_for(main.encode(), 'main.xsd', 'http://sim.test/main.xsd')
                import warnings
                with warnings.catch_warnings(record=True) as w:
                    warnings.simplefilter('always')
                    schema = xmlschema.XMLSchema(src, defuse=mode, opener=opener)
                trees += [s.root for s in schema.maps.iter_schemas() if s.meta_schema is not None]
                loaded = any((s.url or '').endswith('part.xsd') for s in schema.maps.iter_schemas())
                if not loaded:
                    # the part was refused: surfaced as an include/import warning (or error list)
                    msgs = ' '.join(str(x.message) for x in w)
                    out['exc'] = 'XMLResourceForbidden' if 'orbidden' in msgs or 'ntities' in msgs else 'part-not-loaded'
                    if out['exc'] == 'XMLResourceForbidden' and role in ('included', 'redefined'):
                        # an import that fails is a warning by design; a refused include / redefine is an error
                        out['exc'] = 'forbidden-include-only-warned'
                    out['msg'] = msgs[:200]
        except BaseException as exc:
            if type(exc).__name__ in ('CaseTimeout', 'KeyboardInterrupt', 'SystemExit'):
                raise
            out['exc'] = type(exc).__name__
            out['msg'] = canon.mask(str(exc))[:200]
        for t in trees:
            c = canon.canon_elem(t)
            r = repr(c)
            if MARK in r or EXT_MARK in r:
                out['marker'] = True
        if trees and out['tree'] is None:
            out['tree'] = sorted((canon.canon_elem(t) for t in trees), key=repr)[:4]
        out['opens'] = max(peer.opens.values()) if peer.opens else 0
        if out['tree'] is not None:
            # the scratch tree's own path (it contains a process id) is not part of the observation
            import json as _json
            out['tree'] = _json.loads(_json.dumps(out['tree'], default=repr).replace(world, '{W}'))
        return out

    def shrink(self, case):
        if case['prolog'] != 'plain':
            c = jcopy(case)
            c['prolog'] = 'plain'
            yield c
        if case['peer'] != 'constant':
            c = jcopy(case)
            c['peer'] = 'constant'
            yield c
        if case['role'] != 'instance':
            c = jcopy(case)
            c['role'] = 'instance'
            yield c
        for s in (1, 2, 3):
            c = jcopy(case)
            c['pseed'] = s
            if c != case:
                yield c


def _copy_elem(e):
    import copy
    return copy.deepcopy(e)


class ReaderOnly:
    """The least a caller may think of as a stream: read() and close(), nothing else."""
    def __init__(self, data):
        self._data = data
        self._pos = 0

    def read(self, n=-1):
        if n is None or n < 0:
            n = len(self._data) - self._pos
        chunk = self._data[self._pos:self._pos + n]
        self._pos += len(chunk)
        return chunk

    def close(self):
        pass


def chan_class(chan):
    name, kind, seekable, urlattr, base = chan
    if kind in ('raw', 'buffered', 'textio', 'duck'):
        return '%s-%s' % (kind, 'seekable' if seekable else 'nonseekable')
    return kind


CHECK = C13
