"""
C10 - validation results never depend on what the schema object processed before.

Engine: histories. One schema object per run processes a seeded history of 2-12 operations
over a pool of documents chosen to collide on shared state, with 0-3 abort faults placed
inside operations (strict failures, stop-validation hooks, foreign exceptions from user
hooks, I/O errors on the document stream, async aborts raised from the trace function).
Oracle: every completed, fault-free operation equals the same operation on a pristine
forked copy of the schema (reference table). An aborted operation is not judged; everything
after it is judged at full strength.
"""
import os

from sim import core, canon, ops, histories
from checks.common import PoolCheck, jcopy, short

ABORT_KINDS = ('stop_hook', 'hook_skip', 'hook_lax', 'extra_validator_raise', 'extra_validator_error',
               'value_hook_raise', 'element_hook_raise', 'filler_raise', 'eio', 'async', 'async', 'async_in', 'async_in')


class C10(PoolCheck):
    PROP = 'C10'
    LEVEL = 'exploration'
    GROUP = 1
    CASE_TIMEOUT = 120.0
    FAMILIES = ('xsitype', 'ids', 'keys', 'fixed', 'wild', 'subst', 'assert11', 'ns', 'mixed', 'shadow', 'idfields',
                'ondemand', 'simple', 'grouped', 'deepkey', 'laxbuilt', 'vcond')
    CORPUS = False
    ASYNC = True
    RULE = ("case = history of 2-12 operations (validate / is_valid / iter_errors drained or abandoned / decode "
            "strict, lax, skip with several converters / to_objects / decode+encode / path= and lazy variants / "
            "component-level calls through the schema's scratch context / schema find) on ONE schema object over "
            "a family's document pool, with 0-3 abort faults inside operations. Skeleton = (family, sequence of "
            "(op kind, document, abort kind, abort phase)). Non-trivial iff >= 2 operations touched the schema and "
            "either an abort took effect or two different documents were processed.")
    ASSUMPTIONS = [
        "reference = the same fault-free operation on a pristine forked copy of the schema (one fork per evaluation)",
        "operations documented to change the schema (use_location_hints with new namespaces, add_schema, "
        "create_bindings) are excluded from histories; namespaces loaded on demand through wildcards are included "
        "(ondemand family, served by the simulated peer)",
        "an operation whose abort fault took effect, or whose hook changed the validation mode, is not judged; "
        "every later operation is",
    ]
    REAL_STUB = {
        'real': ['xmlschema', 'elementpath', 'xml.etree.ElementTree/expat', 'user hook call sites', 'sys.settrace'],
        'stub': ['document streams with eio fault plans', 'the peer serving on-demand schema locations (SimPeer)'],
    }

    def ref_ops(self, entry, doc):
        return histories.menu(entry)

    def eval_ref(self, entry, doc, rop):
        env = ops.Env(os.path.join(self.scratch, f'ref-{os.getpid()}'))
        try:
            op = dict(rop, doc=entry.docs.index(doc))
            return histories.exec_op(entry.schema, entry, env, op)['res']
        finally:
            env.cleanup()

    def n_cases(self, tier):
        return 4000 if tier == 'quick' else 300000

    def gen_case(self, rng, index):
        # the xsitype family is the one whose validation mutates schema state: a third of the histories use it
        xt = [k for k in self.keys if k.startswith('xsitype/')]
        key = rng.choice(xt) if xt and rng.random() < 0.3 else rng.choice(self.keys)
        e = self.entries[key]
        m = histories.menu(e)
        n = rng.randrange(2, 13) if rng.random() < 0.7 else rng.randrange(2, 5)
        # a small colliding document pool for this history
        k = min(len(e.docs), rng.randrange(2, 7))
        pool = rng.sample(range(len(e.docs)), k)
        focused = rng.random() < 0.3
        if focused:
            # documents that share a name stem (one root declaration / one feature) meet the same schema state: the
            # first one writes it - under an abort inside a state-writing function - the others read it
            stem = '-'.join(e.docs[rng.randrange(len(e.docs))].name.split('-')[:2])
            group = [i for i, d in enumerate(e.docs) if d.name.startswith(stem)]
            if len(group) >= 2:
                pool = group
            else:
                focused = False
        n_aborts = rng.choice([0, 0, 1, 1, 2, 3])
        abort_at = set(rng.sample(range(n), min(n_aborts, n - 1))) if n_aborts else set()
        # families whose paths are resolved with each document's own declarations: four histories in ten repeat ONE
        # such path over documents that bind its names differently
        same_path = None
        if getattr(e.family, 'doc_ns_paths', None) and rng.random() < 0.4:
            the_path = rng.choice(e.family.doc_ns_paths)
            same_path = [o for o in m if o.get('path') == the_path and not o.get('ns')]
            pool = list(range(len(e.docs)))
        hist = []
        for i in range(n):
            op = dict(rng.choice(same_path if same_path and rng.random() < 0.8 else m))
            op['doc'] = rng.choice(pool)
            if i in abort_at and i < n - 1 and op['api'] in histories.HOOKABLE_APIS:
                kinds = ABORT_KINDS if self.ASYNC else [a for a in ABORT_KINDS if not a.startswith('async')]
                if hasattr(e.family, 'peer_pages'):
                    kinds = tuple(kinds) + ('fetch_fail',) * 4
                kind = rng.choice(kinds)
                if kind in histories.DECODE_ONLY_HOOKS and op['api'] not in histories.DECODE_APIS:
                    kind = 'stop_hook'
                if kind == 'async':
                    op['abort'] = {'kind': 'async', 'frac': round(rng.random(), 4)}
                elif kind == 'async_in':
                    # half of them inside the functions that write schema state during a validation
                    op['abort'] = {'kind': 'async_in', 't': rng.choice(histories.HOT_TARGETS) if rng.random() < 0.5
                                   else rng.randrange(len(histories.ABORT_TARGETS)),
                                   'j': rng.choice([1, 1, 2, 2, 3, 4, 5, 7, 10, 15, 25])}
                else:
                    op['abort'] = {'kind': kind, 'k': rng.randrange(1, 12)}
            hist.append(op)
        if focused and hist[0]['api'] in histories.HOOKABLE_APIS and rng.random() < 0.8:
            hist[0]['abort'] = {'kind': 'async_in', 't': rng.choice(histories.HOT_TARGETS),
                                'pos': rng.choice(['first', 'last', 'last', 'last1', 'mid']), 'frac': round(rng.random(), 3)}
        if hasattr(e.family, 'peer_pages') and rng.random() < 0.5 and hist[0]['api'] in histories.HOOKABLE_APIS and n > 1:
            hist[0]['abort'] = {'kind': 'fetch_fail', 'k': rng.randrange(1, 12)}   # before anything could be loaded
        return {'entry': key, 'history': hist, 'knobs': histories.gen_knobs(rng)}

    def run_case(self, case):
        e = self.entries[case['entry']]
        schema = e.schema
        histories.apply_knobs(schema, case.get('knobs'))
        env = self.new_env()
        counters = {}
        violations = []
        results = []
        aborted_any = False
        prev_aborted = None
        skel = []
        try:
            for i, op in enumerate(case['history']):
                r = histories.exec_op(schema, e, env, op, counters)
                res = jcopy(r['res'])
                results.append(res)
                ab = op.get('abort')
                skel.append([op['api'], op.get('lazy', 0), op.get('conv'), op.get('path'), op['doc'],
                             ab['kind'] if ab else None,
                             (int(ab.get('frac', 0) * 5) if ab and ab['kind'] == 'async' else
                              [ab['t'], ab.get('j') or ab.get('pos')] if ab and ab['kind'] == 'async_in' else
                              (ab or {}).get('k'))])
                if r['aborted']:
                    aborted_any = True
                if r['judged'] and not ab:
                    rop = {k: v for k, v in op.items() if k not in ('doc', 'abort')}
                    ref = self.ref(case['entry'], op['doc'], rop)
                    if res != ref:
                        sig = {'clause': 'differs-from-fresh', 'family': e.family.name, 'api': op['api'],
                               'lazy': bool(op.get('lazy')),
                               'after_abort': prev_aborted,
                               'diff': diff_class(res, ref)}
                        if e.docs[op['doc']].kind == 'fault:root':
                            sig['doc'] = 'root-of-on-demand-namespace'
                        elif getattr(e.docs[op['doc']], 'tag', None):
                            sig['doc'] = e.docs[op['doc']].tag
                        violations.append({'signature': sig, 'detail': {
                            'entry': case['entry'], 'index': i, 'op': op, 'doc': e.docs[op['doc']].name,
                            'history': [[o['api'], e.docs[o['doc']].name if 'doc' in o else None, o.get('abort')]
                                        for o in case['history'][:i + 1]],
                            'got': short(res, 900), 'fresh': short(ref, 900)}})
                        break
                elif ab and r['aborted']:
                    # an aborted operation ends in the abort's own exception or a library exception
                    if res['k'] == 'raise' and not res.get('lib') and res['cls'] not in (
                            'AsyncAbort', 'ForeignHookError', 'InjectedOSError') and not self.raises_anyway(case, op, res):
                        violations.append({'signature': {'clause': 'abort-ended-in-foreign-exception',
                                                         'cls': res['cls'], 'abort': ab['kind']},
                                           'detail': {'entry': case['entry'], 'index': i, 'op': op, 'got': short(res)}})
                        break
                if r['aborted']:
                    prev_aborted = ab['kind'] if ab else 'strict'
        finally:
            env.cleanup()
        docs_used = {op['doc'] for op in case['history']}
        counters['ops'] = len(results)
        kn = case.get('knobs') or {}
        counters['knob_selectors_prefill_%s' % kn.get('selectors_prefill', 0)] = 1
        counters['knob_use_cache_%s' % kn.get('use_cache', True)] = 1
        nontrivial = len(results) >= 2 and (aborted_any or len(docs_used) >= 2)
        return {'violations': violations, 'skeleton': [e.family.name, e.version, skel], 'nontrivial': nontrivial,
                'counters': counters, 'digest': core.stable_hash(results),
                'sample': {'case': case, 'kinds': [r.get('k') for r in results]}}

    def raises_anyway(self, case, op, res):
        """The fault-free operation on a fresh schema ends in the same exception (a path the document's own
        declarations cannot resolve): the abort has no part in it."""
        rop = {k: v for k, v in op.items() if k not in ('doc', 'abort')}
        try:
            ref = self.ref(case['entry'], op['doc'], rop)
        except KeyError:
            return False
        return ref.get('k') == 'raise' and ref.get('cls') == res['cls']

    def shrink(self, case):
        h = case['history']
        # drop operations (keep the last one: it is the failing one after truncation)
        if len(h) > 1:
            for k in range(len(h) - 1):
                c = jcopy(case)
                del c['history'][k]
                yield c
        for k, op in enumerate(h):
            if op.get('abort'):
                c = jcopy(case)
                del c['history'][k]['abort']
                yield c
                if op['abort']['kind'] == 'async_in' and (op['abort'].get('j') or 0) > 1:
                    c = jcopy(case)
                    c['history'][k]['abort']['j'] = op['abort']['j'] // 2
                    yield c
                if op['abort']['kind'] == 'async':
                    for f in (0.25, 0.5, 0.75):
                        c = jcopy(case)
                        c['history'][k]['abort']['frac'] = f
                        yield c
            if op['api'] not in ('iter_errors', 'component', 'find') and k < len(h) - 1:
                c = jcopy(case)
                c['history'][k] = {'api': 'iter_errors', 'doc': op['doc']}
                yield c


def diff_class(res, ref):
    if res['k'] != ref['k']:
        return f"{res['k']}-vs-{ref['k']}" + (':' + res.get('cls', '') if res['k'] == 'raise' else '')
    if res['k'] == 'raise':
        return 'exception-differs'
    a, b = res['v'], ref['v']
    if isinstance(a, bool) or isinstance(b, bool):
        return 'verdict'
    if isinstance(a, list) and isinstance(b, list) and len(a) != len(b):
        return 'fewer' if len(a) < len(b) else 'more'
    return 'content'


CHECK = C10
