"""
C11 - every input ends in a verdict or a library error; documented limits hold.

Fault space: eof@k / flip@k (exhaustive on small documents, seeded on larger ones),
eio@k, seekfail, close@k on every stream class; limit sweeps (depth / element count at
limit-1, limit, limit+1 for several limit settings, eager and lazy, all delivery plans);
stack sweeps (nesting below MAX_XML_DEPTH under several recursion limits and caller stack
offsets); lexical mutations (huge numbers / years, odd QNames, stray xsi attributes).
"""
import os
import signal
import sys

from sim import core, canon, ops, simio
from sim.core import CaseTimeout
from checks.common import PoolCheck, delivery_facts, merge, short, jcopy, shrink_plan
from pool.families import FAMILIES, Recur

APIS = ('resource', 'is_valid', 'iter_errors', 'validate', 'decode', 'decode_lax', 'decode_skip',
        'iter_decode', 'to_json_lax')
LAX_APIS = ('is_valid', 'iter_errors', 'decode_lax', 'decode_skip', 'iter_decode', 'to_json_lax')
RESOURCE_ERRORS = ('XMLResourceError', 'XMLResourceOSError', 'XMLResourceParseError', 'XMLResourceBlocked',
                   'XMLResourceForbidden', 'XMLResourceExceeded')
FLIP_BYTES = (0x00, 0x3c, 0xff, 0x26, 0x3e)
HANG_SECONDS = 30


def _alarm(signum, frame):
    raise CaseTimeout()


class C11(PoolCheck):
    PROP = 'C11'
    LEVEL = 'fault_enumeration'
    GROUP = 16
    CASE_TIMEOUT = 120.0
    FAMILIES = ('ids', 'keys', 'xsitype', 'subst', 'fixed', 'wild', 'ns', 'mixed', 'assert11', 'recur', 'big', 'idfields', 'shadow',
                'simple', 'grouped', 'laxbuilt')
    CORPUS = False
    RULE = ("fault cases = (family, document, stream class or file, fault kind@offset [eof, flip, eio, seekfail, "
            "close], validation mode, eager/lazy, entry point); eof and flip are enumerated at EVERY byte offset of "
            "three small documents (exhaustive block at the start of the index space) and seeded, biased to tag "
            "boundaries, elsewhere; limit cases = (limit, value, depth or count at limit-1/limit/limit+1, eager/lazy, "
            "plan); stack cases = (nesting depth, recursion limit, caller stack offset); lexical cases = seeded "
            "mutations of pool documents. Non-trivial iff a fault actually fired before EOF, or the sweep point is "
            "within +-1 of a limit, or nesting >= 100, or a lexical mutation changed the document.")
    ASSUMPTIONS = [
        "a call that exceeds %d s of wall clock is classed as a hang (typical calls take milliseconds)" % HANG_SECONDS,
        "exactly AT a limit the outcome is recorded, not judged (code says 'reached', statement says 'deeper than')",
        "the element-count limit applies to eager loads only, as documented",
        "after an injected OSError the injected instance itself (or a library exception) must surface",
    ]
    REAL_STUB = {
        'real': ['xmlschema', 'elementpath', 'xml.etree.ElementTree/expat', 'interpreter stack (sys.setrecursionlimit)',
                 'xmlschema.limits setters'],
        'stub': ['caller streams with fault plans (SimRaw/SimBuffered/SimText/SimDuck)'],
    }

    def ref_ops(self, entry, doc):
        return [{'api': 'iter_errors'}]

    def post_setup(self):
        # the exhaustive block: small documents, every offset
        self.exh = []
        small = []
        for key in self.keys:
            e = self.entries[key]
            if e.version != '1.0' or e.family.name not in ('ids', 'subst', 'mixed'):
                continue
            di = min(range(len(e.docs)), key=lambda i: (e.docs[i].kind != 'valid', len(e.docs[i].data)))
            small.append((key, di))
        for key, di in small:
            n = len(self.entries[key].docs[di].data)
            for k in range(n + 1):
                for lazy in (0, 1):
                    self.exh.append((key, di, {'eof': k}, lazy))
            for k in range(n):
                for b in FLIP_BYTES[:3]:
                    self.exh.append((key, di, {'flip': [k, b]}, k % 2))
        self.n_exh = len(self.exh)

    def n_cases(self, tier):
        return self.n_exh + (12000 if tier == 'quick' else 1000000)

    # ------------------------------------------------------------------
    def gen_case(self, rng, index):
        if index < self.n_exh:
            key, di, fault, lazy = self.exh[index]
            api = ('iter_errors', 'is_valid', 'decode_lax', 'validate')[index % 4]
            return {'kind': 'fault', 'entry': key, 'doc': di, 'api': api, 'lazy': lazy,
                    'src': {'ch': ('raw', 'buffered', 'textio', 'duck')[(index // 4) % 4], 'plan': None,
                            'faults': fault, 'pclass': 'whole'}, 'exhaustive': True}
        r = rng.random()
        if r < 0.04:
            return self.gen_nested(rng)
        if r < 0.50:
            return self.gen_fault(rng)
        if r < 0.65:
            return self.gen_limit(rng)
        if r < 0.72:
            return self.gen_stack(rng)
        return self.gen_lexical(rng)

    def gen_fault(self, rng):
        key = rng.choice([k for k in self.keys if not k.startswith('recur')])
        e = self.entries[key]
        di = rng.randrange(len(e.docs))
        if rng.random() < 0.05:
            # a document larger than the 64 KiB head buffer of the rewindable reader, on a non-seekable defused
            # stream, with the fault beyond the buffered head
            key = rng.choice([k for k in self.keys if k.startswith('big/')])
            e = self.entries[key]
            di = max(range(len(e.docs)), key=lambda i: len(e.docs[i].data))
            n = len(e.docs[di].data)
            kind = rng.choice(['eio', 'eio', 'eof', 'close'])
            return {'kind': 'fault', 'entry': key, 'doc': di, 'api': rng.choice(APIS), 'lazy': rng.choice([0, 0, 1]),
                    'defuse': rng.choice(['always', 'nonlocal']),
                    'src': {'ch': rng.choice(['raw', 'buffered']), 'plan': {'sizes': [], 'rest': rng.choice([None, 16384, 40000])},
                            'pclass': 'big-beyond-head', 'faults': {kind: rng.randrange(min(65536, n - 1), n + 1)},
                            'seekable': False}}
        data = e.docs[di].data
        n = len(data)
        lt, gt = simio.markup_positions(data)
        marks = lt + gt + [g + 1 for g in gt]

        def offset():
            if marks and rng.random() < 0.6:
                return min(n, max(0, rng.choice(marks) + rng.choice([-1, 0, 0, 1])))
            return rng.randrange(n + 1)
        faults = {}
        for _ in range(rng.choice([1, 1, 1, 2, 3])):
            kind = rng.choice(['eof', 'flip', 'eio', 'eio', 'seekfail', 'close'])
            if kind == 'flip':
                faults['flip'] = [min(n - 1, offset()), rng.choice(FLIP_BYTES + (rng.randrange(256),))]
            elif kind == 'seekfail':
                faults['seekfail'] = True
            else:
                faults[kind] = offset()
        ch = rng.choice(['raw', 'raw', 'buffered', 'textio', 'duck', 'path'])
        if ch == 'path':
            faults = {k: v for k, v in faults.items() if k in ('eof', 'flip')} or {'eof': offset()}
        plan, pclass = simio.gen_plan(rng, data)
        case = {'kind': 'fault', 'entry': key, 'doc': di, 'api': rng.choice(APIS), 'lazy': rng.choice([0, 0, 1, 1, 2]),
                'src': {'ch': ch, 'plan': plan, 'pclass': pclass, 'faults': faults,
                        'seekable': rng.random() < 0.9}}
        if rng.random() < 0.3:
            # the defusing pre-parse reads the stream first (wrapping non-seekable ones in a rewindable reader)
            case['defuse'] = rng.choice(['always', 'nonlocal'])
            if ch in ('raw', 'buffered') and rng.random() < 0.6:
                case['src']['seekable'] = False
            if 'eio' in faults and rng.random() < 0.4:
                case['src']['faults']['eio'] = n          # raises where EOF would be reported
        return case

    def gen_nested(self, rng):
        key = rng.choice([k for k in self.keys if not k.startswith(('recur', 'big'))])
        e = self.entries[key]
        return {'kind': 'nested', 'entry': key, 'doc': rng.randrange(len(e.docs)), 'at': rng.randrange(0, 6),
                'inner': rng.choice(['iter', 'iter_errors', 'iter_depth', 'is_valid']),
                'outer': rng.choice(['iter_errors', 'iter_depth', 'decode_lax']), 'thin': rng.random() < 0.5}

    def run_nested(self, case):
        """A second iteration of a lazy resource is attempted while one is running: it is refused with the library's
        resource error, and the running one completes as if nothing had happened."""
        import xmlschema
        e = self.entries[case['entry']]
        doc = e.docs[case['doc']]
        res = xmlschema.XMLResource(doc.data, lazy=True, thin_lazy=case['thin'])
        log = {'inner': None}
        n = [0]

        def inner():
            try:
                if case['inner'] == 'iter':
                    next(res.iter(), None)
                elif case['inner'] == 'iter_depth':
                    next(res.iter_depth(), None)
                elif case['inner'] == 'is_valid':
                    e.schema.is_valid(res)
                else:
                    next(e.schema.iter_errors(res), None)
                log['inner'] = {'k': 'ok'}
            except BaseException as exc:
                log['inner'] = canon.canon_exc(exc)

        def hook(elem, xsd_element):
            n[0] += 1
            if n[0] == case['at'] + 1:
                inner()
            return False
        keep = {}
        try:
            if case['outer'] == 'iter_depth':
                out = []
                for k, el in enumerate(res.iter_depth(mode=1)):
                    if k == case['at']:
                        inner()
                    out.append(el.tag)
                outer = {'k': 'ok', 'v': len(out)}
            elif case['outer'] == 'decode_lax':
                data, errs = e.schema.decode(res, validation='lax', validation_hook=hook)
                outer = {'k': 'ok', 'v': len(errs)}
            else:
                outer = {'k': 'ok', 'v': ops.errors_canon(list(e.schema.iter_errors(res, validation_hook=hook)), True)}
        except BaseException as exc:
            if type(exc).__name__ == 'CaseTimeout':
                raise
            keep['exc'] = exc
            outer = canon.canon_exc(exc)
        outer, inner_res = jcopy(outer), jcopy(log['inner'])
        violations = []
        for which, r in (('outer', outer), ('inner', inner_res)):
            if r and r['k'] == 'raise' and not r.get('lib'):
                violations.append({'signature': {'clause': 'foreign-exception', 'cls': r['cls'], 'kind': 'nested',
                                                 'which': which, 'msg': _tmpl(r.get('msg', ''))},
                                   'detail': {'case': case, 'doc': doc.name, 'outer': short(outer), 'inner': short(inner_res)}})
        if inner_res and inner_res['k'] == 'ok' and case['inner'] != 'x':
            violations.append({'signature': {'clause': 'nested-iteration-admitted', 'kind': 'nested', 'inner': case['inner']},
                               'detail': {'case': case, 'doc': doc.name}})
        if outer['k'] == 'ok' and case['outer'] == 'iter_errors' and inner_res is not None:
            ref = self.ref(case['entry'], case['doc'], {'api': 'iter_errors'})
            if ref['k'] == 'ok' and [x[:2] for x in outer['v']] != [x[:2] for x in ref['v']] and \
                    sorted(x[1] for x in outer['v']) != sorted(x[1] for x in ref['v']):
                pass    # lazy/eager differences are C06's business; only the exception classes are judged here
        counters = {'nested_cases': 1, 'nested_inner_' + (inner_res or {}).get('cls', str(inner_res and inner_res['k'])): 1}
        return {'violations': violations, 'skeleton': ['nested', e.family.name, case['outer'], case['inner'], case['at'], case['thin']],
                'nontrivial': inner_res is not None, 'counters': counters, 'digest': core.stable_hash([outer, inner_res]),
                'sample': {'case': case, 'inner': inner_res, 'outer_kind': outer['k']}}

    def gen_limit(self, rng):
        which = rng.choice(['depth', 'depth', 'elements'])
        if which == 'depth' and rng.random() < 0.25:
            # flat documents (depth 3) with many namespace-declaring leaves: far under every limit
            limit = rng.choice([5, 50, 1000])
            d = 3
            doc = {'gen': 'nsflat', 'count': rng.choice([8, 70, 1100])}
        elif which == 'depth':
            limit = rng.choice([5, 50, 1000])
            d = limit + rng.choice([-1, 0, 1])
            doc = {'gen': 'nested', 'depth': d, 'width': rng.choice([1, 2])}
        else:
            limit = rng.choice([10, 1000])
            d = limit + rng.choice([-1, 0, 1])
            doc = {'gen': 'wide', 'count': d}
        lazy = rng.choice([0, 1])
        if rng.random() < 0.5:
            doc['decor'] = [rng.randrange(1 << 30), rng.choice([1, 2, 5, 40])]   # comments / PIs sprinkled in
        plan_cls = rng.choice(['whole', 'tiny', 'block16k', 'geometric'])
        return {'kind': 'limit', 'which': which, 'limit': limit, 'value': d, 'docgen': doc, 'lazy': lazy,
                'api': rng.choice(['resource', 'iter_errors', 'is_valid', 'decode_lax']),
                'src': {'ch': rng.choice(['raw', 'buffered', 'bytes', 'path', 'textio']), 'pclass': plan_cls,
                        'plan': {'whole': None, 'tiny': {'sizes': [], 'rest': rng.randrange(1, 9)},
                                 'block16k': {'sizes': [], 'rest': 16384},
                                 'geometric': {'sizes': [rng.randrange(1, 400) for _ in range(20)], 'rest': 64}}[plan_cls]},
                'version': rng.choice(['1.0', '1.1'])}

    def gen_stack(self, rng):
        depth = rng.choice([2, 10, 100, 200, 300, 400, 450, 500, 600, 800, 990, 998]) + rng.randrange(0, 2)
        return {'kind': 'stack', 'depth': depth, 'reclimit': rng.choice([None, 'half', 'double']),
                'offset': rng.choice([0, 100, 300]), 'lazy': rng.choice([0, 1]),
                'api': rng.choice(['iter_errors', 'is_valid', 'decode_lax', 'resource']),
                'version': rng.choice(['1.0', '1.1'])}

    MUTATIONS = (
        ('hugeint', b'1', b'9' * 400), ('hugeyear', b'2020-', b'99999999999-'), ('negyear', b'2020-', b'-0000-'),
        ('hugedec', b'1.5', b'1' + b'0' * 300 + b'.5'), ('oddqname', b':name', b'::name'), ('emptyqname', b'f:name', b':'),
        ('strayxsi', b'>', b' xmlns:xsi="http://www.w3.org/2001/XMLSchema-instance" xsi:nil="maybe">'),
        ('strayxsitype', b'>', b' xmlns:xsi="http://www.w3.org/2001/XMLSchema-instance" xsi:type="nope:T">'),
        ('xsischemaloc', b'>', b' xmlns:xsi="http://www.w3.org/2001/XMLSchema-instance" xsi:schemaLocation="a">'),
        ('unknownns', b'<', b'<zz:q xmlns:zz="urn:zz"/><'),
        ('unknownns_digit', b'<', b'<q xmlns="1"><r/></q><'), ('unknownns_brace', b'<', b'<q xmlns="{x"/><'),
        ('unknownns_braces', b'<', b'<zz:q xmlns:zz="a}b{c"><zz:r/></zz:q><'),
        # an unknown xsi:type (in-scope prefix) on an element that a wildcard admits and a global declaration matches
        ('xsitype_unknown_on_known', b'<w:known', b'<w:known xmlns:xsi="http://www.w3.org/2001/XMLSchema-instance" xsi:type="w:Nope"'),
        # a list-typed element that decodes to nothing, followed by one of the same name
        # a restricted list in an ATTRIBUTE: an item that cannot be decoded and a facet of the list violated at once
        ('attrlist_item_and_facet', b'tl="1 2 3"', b'tl="1 x"'), ('attrlist_only_bad_item', b'tl="1 2 3"', b'tl="x"'),
        # xsi:nil is a boolean: its lexical space admits surrounding blanks
        ('nil_padded', b'xsi:nil="true"', b'xsi:nil=" true "'), ('nil_padded_zero', b'xsi:nil="true"', b'xsi:nil="0 "'),
        ('emptylist_then_same', b'<nums>', b'<nums> </nums><nums>'), ('emptylist_l', b'<f:l>', b'<f:l>  </f:l><f:l>'),
        ('hint_ipv6', b'>', b' xmlns:xsi="http://www.w3.org/2001/XMLSchema-instance" xsi:schemaLocation="urn:n http://[::1">'), ('ctrlchar', b'>', b'>&#1;'), ('bigcharref', b'>', b'>&#1114112;'),
        ('nan', b'1', b'NaN'), ('inf', b'1', b'-INF'), ('exp', b'1', b'1e999999999'), ('dur', b'true', b'P99999999999999Y'),
        ('time', b'00:00:00', b'24:00:01'), ('tz', b'Z', b'+99:99'), ('leadws', b'="', b'="\t\n '),
        ('qname3', b':name', b':b:name'), ('qname3attr', b':attr', b':x:attr'), ('qnameval', b':val', b':v:val'),
        ('xsitype3', b'>', b' xmlns:xsi="http://www.w3.org/2001/XMLSchema-instance" xsi:type="a:b:c">'),
        ('xsitypeknown3', b'xsi:type="t:', b'xsi:type="t:t:'), ('listitem', b' 2', b' x'), ('emptyval', b'="1', b'="'),
        ('nilstray', b'/>', b' xmlns:xsi="http://www.w3.org/2001/XMLSchema-instance" xsi:nil="true"/>'),
        ('longtoken', b'="', b'="' + b'A' * 70000), ('refstray', b'ref="', b'ref=" '), ('dupattrns', b'<', b'<!-- -->'),
        # the XML declaration itself (applied to the prolog)
        ('enc_sjis', b'encoding="UTF-8"', b'encoding="shift_jis"'), ('enc_big5', b'encoding="UTF-8"', b'encoding="big5"'),
        ('enc_utf32', b'encoding="UTF-8"', b'encoding="utf-32"'), ('enc_ebcdic', b'encoding="UTF-8"', b'encoding="cp037"'),
        ('enc_unknown', b'encoding="UTF-8"', b'encoding="x-nope"'), ('enc_utf16', b'encoding="UTF-8"', b'encoding="UTF-16"'),
        ('enc_empty', b'encoding="UTF-8"', b'encoding=""'), ('ver11', b'version="1.0"', b'version="1.1"'),
        ('standalone', b'?>', b' standalone="maybe"?>'),
        # values that XPath tests of type alternatives / assertions compute with
        ('zerodiv', b'b="1"', b'b="0"'), ('hugeattr', b'a="1"', b'a="' + b'9' * 400 + b'"'), ('hugeyearattr', b'd="2020-', b'd="99999999999-'),
        ('nanattr', b'a="1"', b'a="NaN"'), ('hugeattr_facet', b'm="1"', b'm="' + b'9' * 400 + b'"'),
        # location hints that are no usable URL (followed only by the hint-following entry points)
        ('hint_dataurl', b'>', b' xmlns:xsi="http://www.w3.org/2001/XMLSchema-instance" xsi:schemaLocation="urn:x data:,x">'),
        ('hint_nul', b'>', b' xmlns:xsi="http://www.w3.org/2001/XMLSchema-instance" xsi:schemaLocation="urn:x file:///nonexistent/%00">'),
        ('hint_odd', b'>', b' xmlns:xsi="http://www.w3.org/2001/XMLSchema-instance" xsi:schemaLocation="urn:x a.xsd urn:y">'),
        ('hint_nons_nul', b'>', b' xmlns:xsi="http://www.w3.org/2001/XMLSchema-instance" xsi:noNamespaceSchemaLocation="%00 ">'),
    )
    PROLOG_MUTATIONS = ('enc_sjis', 'enc_big5', 'enc_utf32', 'enc_ebcdic', 'enc_unknown', 'enc_utf16', 'enc_empty',
                        'ver11', 'standalone')

    REENCODINGS = ('utf-16', 'utf-16-le-nobom', 'utf-32', 'garbled-head', 'latin1-high', 'text-nul-head', 'text-surrogate-head',
                   'text-no-lt', 'text-long-no-lt')

    def reencode(self, data, how):
        text = data.decode('utf-8').replace('\n', ' ')
        # garbled TEXT sources: a str that does not start with '<' is taken for a location
        if how == 'text-nul-head':
            return 'x\x00' + text[:40]
        if how == 'text-surrogate-head':
            return '\ud800' + text[:40]
        if how == 'text-no-lt':
            return text[1:60]
        if how == 'text-long-no-lt':
            return text[1:] * 40
        if how == 'utf-16':
            return text.replace('encoding="UTF-8"', 'encoding="UTF-16"').encode('utf-16')
        if how == 'utf-16-le-nobom':
            return text.replace('encoding="UTF-8"', 'encoding="UTF-16"').encode('utf-16-le')
        if how == 'utf-32':
            return text.encode('utf-32')
        if how == 'garbled-head':
            return b'\xff\xfe\x80' + text.encode('utf-8')[3:]
        return text.replace('encoding="UTF-8"', 'encoding="ISO-8859-1"').encode('utf-8').replace(b't', b'\xe9', 1)

    def gen_lexical(self, rng):
        cand = [k for k in self.keys if not k.startswith(('recur', 'big', 'idfields', 'shadow'))]
        simple = [k for k in cand if k.startswith('simple/')]
        key = rng.choice(simple) if simple and rng.random() < 0.35 else rng.choice(cand)
        e = self.entries[key]
        di = rng.randrange(len(e.docs))
        muts = []
        data = e.docs[di].data
        body = data[data.find(b'?>') + 2:]
        applicable = [m for m, (nm_, old, _new) in enumerate(self.MUTATIONS)
                      if (old in data[:data.find(b'?>') + 2] if nm_ in self.PROLOG_MUTATIONS else old in body)] or [0]
        # half of the draws among the mutations with a SPECIFIC pattern (they fit few documents and would otherwise
        # be crowded out by the ones that fit everywhere)
        specific = [m for m in applicable if len(self.MUTATIONS[m][1]) >= 5 and self.MUTATIONS[m][0] not in self.PROLOG_MUTATIONS]
        for _ in range(rng.choice([1, 1, 2])):
            m = rng.choice(specific) if specific and rng.random() < 0.5 else rng.choice(applicable)
            muts.append([m, rng.randrange(0, max(1, min(24, body.count(self.MUTATIONS[m][1]))))])
        case = {'kind': 'lexical', 'entry': key, 'doc': di, 'muts': muts, 'api': rng.choice(APIS),
                'lazy': rng.choice([0, 0, 1, 2]), 'src': {'ch': 'bytes'}, 'hints': rng.random() < 0.3,
                'defuse': 'always' if rng.random() < 0.25 else None}      # the defusing pre-parse meets the mutation first
        if rng.random() < 0.15:
            # decoding through the other converters, with and without keeping unknown content
            case['api'] = rng.choice(['decode_lax', 'decode_lax', 'decode', 'decode_skip'])
            case['conv'] = rng.choice(['badgerfish', 'gdata', 'columnar', 'jsonml', 'parker', 'abdera', 'unordered',
                                       'dataelement'])
            case['keep_unknown'] = rng.random() < 0.5
            case['lazy'] = rng.choice([0, 0, 1])
        if rng.random() < 0.12:
            case['muts'] = []
            case['reencode'] = rng.choice(self.REENCODINGS)
        # (an iterparse=limited_parser(n) dimension was tried and withdrawn: a user-selected parser function is
        # configuration, not a document - DESIGN.md 9 records what it showed)
        return case

    def mutate(self, data, muts):
        changed = False
        for m, occ in muts:
            name, old, new = self.MUTATIONS[m]
            pos = -1
            start = data.find(b'?>') + 2
            if name in self.PROLOG_MUTATIONS:
                k = data.find(old)
                if 0 <= k < start:
                    data = data[:k] + new + data[k + len(old):]
                    changed = True
                continue
            for _ in range(occ + 1):
                nxt = data.find(old, max(pos + 1, start))
                if nxt < 0:
                    break
                pos = nxt
            if pos >= 0:
                data = data[:pos] + new + data[pos + len(old):]
                changed = True
        return data, changed

    # ------------------------------------------------------------------
    def call(self, schema, source, api, lazy, keep, defuse=None, hints=False, iterparse=None, conv=None,
             keep_unknown=None):
        """Returns canonical result; exception object kept for identity checks."""
        import xmlschema
        try:
            if lazy or api == 'resource' or defuse or iterparse:
                extra = {'defuse': defuse} if defuse else {}
                if iterparse:
                    # the library's own event-limited parser as the resource's iterparse function
                    from xmlschema.resources.parsers import limited_parser
                    extra['iterparse'] = limited_parser(iterparse)
                source = xmlschema.XMLResource(source, lazy=(True if lazy == 1 else lazy) if lazy else False, **extra)
                keep['resource'] = source
            if api == 'resource':
                return {'k': 'ok', 'v': source.root.tag}
            if api == 'to_json_lax':
                r = xmlschema.to_json(source, schema=schema, validation='lax', lazy=bool(lazy))
                return {'k': 'ok', 'v': ['json', bool(r[1]) if isinstance(r, tuple) else False]}
            op = {'api': api, 'lazy': lazy}
            if conv:
                op['conv'] = conv
                if keep_unknown:
                    op['keep_unknown'] = True
            if hints and api in ('iter_errors', 'is_valid', 'decode_lax', 'validate', 'decode'):
                # the package-level functions follow location hints by default; here on the schema's own methods
                res = ops.call_api(schema, source, op, {'use_location_hints': True})
            else:
                res = ops.call_api(schema, source, op)
            return res
        except CaseTimeout:
            raise
        except BaseException as exc:
            keep['exc'] = exc
            return canon.canon_exc(exc)

    def run_case(self, case):
        old = signal.signal(signal.SIGALRM, _alarm)
        signal.setitimer(signal.ITIMER_REAL, HANG_SECONDS)
        try:
            return self._run_case(case)
        except CaseTimeout:
            return {'violations': [{'signature': {'clause': 'hang', 'kind': case['kind'], 'api': case.get('api')},
                                    'detail': {'case': case}}],
                    'skeleton': ['hang', case['kind']], 'nontrivial': True, 'counters': {'hang': 1}, 'digest': 'hang'}
        finally:
            signal.setitimer(signal.ITIMER_REAL, 0)
            signal.signal(signal.SIGALRM, old)

    def _run_case(self, case):
        kind = case['kind']
        if kind == 'fault':
            return self.run_fault(case)
        if kind == 'nested':
            return self.run_nested(case)
        if kind == 'limit':
            return self.run_limit(case)
        if kind == 'stack':
            return self.run_stack(case)
        return self.run_lexical(case)

    # ---- exception class oracle -----------------------------------------
    def class_violation(self, res, keep, api, fired, lax):
        """None if the outcome is in-contract, else a partial signature."""
        if res['k'] != 'raise':
            return None
        exc = keep.get('exc')
        injected = keep.get('injected')
        if injected is not None and (exc is injected or _chained(exc, injected)):
            return None
        if fired.get('close') and res['cls'] in ('ValueError', 'XMLSchemaValueError') and 'closed' in res.get('msg', ''):
            return None   # the stream's own closed-file error (what a real closed file raises), possibly re-classed
        if not res.get('lib'):
            return {'clause': 'foreign-exception', 'cls': res['cls'], 'msg': _tmpl(res.get('msg', ''))}
        if lax and api in LAX_APIS and res['cls'] not in RESOURCE_ERRORS:
            return {'clause': 'lax-raised', 'cls': res['cls'],
                    'msg': _tmpl(res.get('msg') or (res.get('verr') or ['', ''])[1])}
        return None

    def run_fault(self, case):
        e = self.entries[case['entry']]
        doc = e.docs[case['doc']]
        data = doc.data
        src = dict(case['src'])
        faults = src.get('faults') or {}
        api, lazy = case['api'], case['lazy']
        env = self.new_env()
        keep = {}
        counters = {}
        violations = []
        core_ = None
        try:
            if src['ch'] == 'path':
                fdata = data
                if 'flip' in faults:
                    k, b = faults['flip']
                    fdata = fdata[:k] + bytes([b]) + fdata[k + 1:]
                if 'eof' in faults:
                    fdata = fdata[:faults['eof']]
                source = env.path_for(fdata)
                fired = {k: 1 for k in faults}
            else:
                source, core_ = ops.make_source(env, data, src)
            res = self.call(e.schema, source, api, lazy, keep, case.get('defuse'))
            if core_ is not None:
                keep['injected'] = core_.injected
                fired = dict(core_.fired)
                if 'flip' in faults:
                    fired['flip'] = 1
                if 'eof' in faults and faults['eof'] < len(data):
                    fired.setdefault('eof', 0)
            # second use of the same lazy resource (must stay in-contract: no KeyError etc.)
            res2 = None
            if lazy and keep.get('resource') is not None and api != 'resource':
                keep2 = {'injected': keep.get('injected')}
                res2 = self.call(e.schema, keep['resource'], 'iter_errors', 0, keep2)
                if core_ is not None:
                    keep2['injected'] = core_.injected
            # clean retry on the same schema object
            retry = self.call(e.schema, data, 'iter_errors', 0, {})
        finally:
            env.cleanup()
        res = jcopy(res)
        lax = api in LAX_APIS

        sig = self.class_violation(res, keep, api, fired, lax)
        if sig:
            sig.update(lazy=bool(lazy))
            violations.append({'signature': sig, 'detail': {'case': case, 'doc': doc.name, 'result': short(res)}})
        if res2 is not None and not violations:
            if core_ is not None:
                fired.update(core_.fired)
            sig = self.class_violation(jcopy(res2), keep2, 'iter_errors', fired, True)
            if sig:
                sig.update(phase='second-use', lazy=True)
                violations.append({'signature': sig, 'detail': {'case': case, 'doc': doc.name,
                                                                'first': short(res), 'second': short(res2)}})
        # truncation never yields 'valid'
        rs, re_ = simio.root_span(data)
        end_root = len(data.rstrip()) if src['ch'] != 'textio' else len(data.decode('utf-8').rstrip())
        truncated = 'eof' in faults and faults['eof'] < end_root and set(faults) <= {'eof'}
        if truncated and res['k'] == 'ok' and api != 'resource':
            says_valid = (api == 'is_valid' and res['v'] is True) or (api in ('iter_errors',) and res['v'] == []) or \
                         (api == 'validate') or (api == 'decode') or \
                         (api in ('decode_lax', 'decode_skip') and api == 'decode_lax' and res['v'][1] == []) or \
                         (api == 'to_json_lax' and res['v'][1] is False)
            if api == 'iter_decode':
                says_valid = not any(isinstance(x, list) and x and x[0] == 'error' for x in res['v'])
            if says_valid and not (lazy and faults['eof'] >= end_root):
                violations.append({'signature': {'clause': 'truncated-valid', 'api': api, 'lazy': bool(lazy)},
                                   'detail': {'case': case, 'doc': doc.name, 'result': short(res)}})
        # clean retry equals the reference
        ref = self.ref(case['entry'], case['doc'], {'api': 'iter_errors'})
        if jcopy(retry) != ref:
            violations.append({'signature': {'clause': 'retry-differs', 'api': api, 'lazy': bool(lazy),
                                             'fault': sorted(faults)},
                               'detail': {'case': case, 'doc': doc.name, 'retry': short(retry), 'ref': short(ref)}})

        fired_any = any(v for v in fired.values()) or (src['ch'] == 'path')
        for k, v in fired.items():
            if v:
                counters['fault_fired_' + k] = counters.get('fault_fired_' + k, 0) + 1
        counters['api_' + api] = 1
        counters['lazy' if lazy else 'eager'] = 1
        counters['outcome_' + res['k'] + ('_' + res.get('cls', '') if res['k'] == 'raise' else '')] = 1
        if core_ is not None:
            counters['reads'] = core_.reads
        n = max(1, len(data))
        off = [faults[k] if not isinstance(faults[k], list) else faults[k][0] for k in faults if k != 'seekfail']
        offclass = sorted({simio.cut_classes(data, [o])[0] if simio.cut_classes(data, [o]) else 'edge' for o in off})
        if case.get('defuse'):
            counters['defused_fault_cases'] = 1
        skeleton = [e.family.name, src['ch'], api, lazy, sorted(faults), offclass, case.get('defuse'), src.get('seekable', True),
                    off if case.get('exhaustive') else [o * 10 // n for o in off], doc.name if case.get('exhaustive') else doc.kind]
        return {'violations': violations, 'skeleton': skeleton, 'nontrivial': bool(fired_any),
                'counters': counters, 'digest': core.stable_hash([res, res2, retry]),
                'sample': {'case': case, 'outcome': res['k'], 'cls': res.get('cls')}}

    def run_limit(self, case):
        import xmlschema
        from xmlschema import limits
        e = self.entries['recur/' + case['version']]
        g = case['docgen']
        data = Recur.nested(g['depth'], g['width']) if g['gen'] == 'nested' else \
            Recur.nsflat(g['count']) if g['gen'] == 'nsflat' else Recur.wide(g['count'])
        if g.get('decor'):
            import random as _random
            data = Recur.decorate(data, _random.Random(g['decor'][0]), g['decor'][1])
        name = 'MAX_XML_DEPTH' if case['which'] == 'depth' else 'MAX_XML_ELEMENTS'
        saved = getattr(limits, name)
        env = self.new_env()
        keep = {}
        try:
            setattr(limits, name, case['limit'])
            source, core_ = ops.make_source(env, data, case['src'])
            res = self.call(e.schema, source, case['api'], case['lazy'], keep)
        finally:
            setattr(limits, name, saved)
            env.cleanup()
        res = jcopy(res)
        violations = []
        v, limit = case['value'], case['limit']
        exceeded = res['k'] == 'raise' and res['cls'] == 'XMLResourceExceeded'
        applies = case['which'] == 'depth' or not case['lazy']
        if case['lazy'] and case['api'] == 'resource':
            applies = False     # constructing a lazy resource parses the root only
            if case['which'] == 'depth' and res['k'] == 'ok':
                v = min(v, limit - 1)
        sigbase = {'which': case['which'], 'limit': limit, 'lazy': bool(case['lazy']), 'api': case['api']}
        if applies and v > limit and not exceeded:
            violations.append({'signature': dict(sigbase, clause='over-limit-not-refused', outcome=res.get('cls', 'ok')),
                               'detail': {'case': case, 'result': short(res)}})
        if (v < limit or not applies) and res['k'] == 'raise':
            violations.append({'signature': dict(sigbase, clause='under-limit-refused', cls=res['cls']),
                               'detail': {'case': case, 'result': short(res)}})
        counters = {'limit_cases': 1, 'limit_%s_%s' % (case['which'], 'over' if v > limit else 'under' if v < limit else 'at'): 1}
        if v == limit:
            counters['at_limit_outcome_' + ('exceeded' if exceeded else res['k'])] = 1
        skeleton = ['limit', case['which'], limit, v - limit, case['lazy'], case['api'], case['src']['ch'],
                    case['src']['pclass'], (g.get('decor') or [0, 0])[1]]
        return {'violations': violations, 'skeleton': skeleton, 'nontrivial': True, 'counters': counters,
                'digest': core.stable_hash(res), 'sample': {'case': case, 'outcome': res.get('cls', res['k'])}}

    def run_stack(self, case):
        e = self.entries['recur/' + case['version']]
        data = Recur.nested(case['depth'])
        saved = sys.getrecursionlimit()
        rl = {None: saved, 'half': saved // 2, 'double': saved * 2}[case['reclimit']]
        keep = {}

        def descend(n):
            if n > 0:
                return descend(n - 1)
            return self.call(e.schema, data, case['api'], case['lazy'], keep)
        try:
            sys.setrecursionlimit(rl)
            try:
                res = descend(case['offset'])
            except RecursionError:
                res = {'k': 'skip'}     # the harness' own descent did not fit: not a library outcome
        finally:
            sys.setrecursionlimit(saved)
        res = jcopy(res)
        violations = []
        if res['k'] == 'raise':
            sig = self.class_violation(res, keep, case['api'], {}, case['api'] in LAX_APIS)
            if sig:
                sig.update(lazy=bool(case['lazy']), kind='stack',
                           depth_class='>=100' if case['depth'] >= 100 else '<100')
                violations.append({'signature': sig, 'detail': {'case': case, 'result': short(res)}})
            elif res['cls'] == 'XMLResourceExceeded' and case['depth'] < 1000:
                violations.append({'signature': {'clause': 'under-limit-refused', 'kind': 'stack', 'cls': res['cls']},
                                   'detail': {'case': case, 'result': short(res)}})
        counters = {'stack_cases': 1, 'stack_outcome_' + res.get('cls', res['k']): 1}
        skeleton = ['stack', case['depth'], case['reclimit'], case['offset'], case['lazy'], case['api']]
        return {'violations': violations, 'skeleton': skeleton, 'nontrivial': case['depth'] >= 100,
                'counters': counters, 'digest': core.stable_hash(res),
                'sample': {'case': case, 'outcome': res.get('cls', res['k'])}}

    def run_lexical(self, case):
        e = self.entries[case['entry']]
        doc = e.docs[case['doc']]
        data, changed = self.mutate(doc.data, case['muts'])
        if case.get('reencode'):
            data, changed = self.reencode(doc.data, case['reencode']), True
        keep = {}
        res = jcopy(self.call(e.schema, data, case['api'], case['lazy'], keep, hints=case.get('hints'),
                              conv=case.get('conv'), keep_unknown=case.get('keep_unknown'), defuse=case.get('defuse')))
        violations = []
        lax = case['api'] in LAX_APIS and not isinstance(data, str)
        sig = self.class_violation(res, keep, case['api'], {}, lax)
        if sig:
            sig.update(lazy=bool(case['lazy']))
            if case.get('conv'):
                sig.update(conv=case['conv'], keep_unknown=bool(case.get('keep_unknown')))
            violations.append({'signature': sig, 'detail': {'case': case, 'doc': doc.name, 'result': short(res),
                                                            'data': (data if isinstance(data, str) else
                                                                     data.decode('utf-8', 'replace'))[:600]}})
        counters = {'lexical_cases': 1, 'lexical_changed': int(changed)}
        skeleton = ['lexical', e.family.name, [self.MUTATIONS[m][0] for m, _ in case['muts']] or case.get('reencode'),
                    case['api'], case['lazy'], doc.name]
        return {'violations': violations, 'skeleton': skeleton, 'nontrivial': changed, 'counters': counters,
                'digest': core.stable_hash(res), 'sample': {'case': case, 'outcome': res.get('cls', res['k'])}}

    def shrink(self, case):
        if case['kind'] == 'fault':
            faults = case['src'].get('faults') or {}
            if len(faults) > 1:
                for k in faults:
                    c = jcopy(case)
                    del c['src']['faults'][k]
                    yield c
            yield from shrink_plan(case)
            if case['src']['ch'] != 'raw' and case['src']['ch'] != 'path':
                c = jcopy(case)
                c['src']['ch'] = 'raw'
                yield c
            if case['lazy'] == 2:
                c = jcopy(case)
                c['lazy'] = 1
                yield c
        elif case['kind'] == 'lexical':
            if len(case['muts']) > 1:
                for k in range(len(case['muts'])):
                    c = jcopy(case)
                    del c['muts'][k]
                    yield c
        elif case['kind'] == 'stack':
            # the depth is not shrunk: the exact threshold depends on the caller's own stack depth, and a
            # replay sitting on it would not be robust across entry paths
            if case['offset']:
                c = jcopy(case)
                c['offset'] = 0
                yield c
            if case['reclimit']:
                c = jcopy(case)
                c['reclimit'] = None
                yield c
        elif case['kind'] == 'limit':
            yield from shrink_plan(case)

    def extra_evidence(self):
        ev = super().extra_evidence()
        ev['exhaustive_block'] = {'cases': self.n_exh,
                                  'what': 'eof@every offset (eager+lazy) and flip@every offset x 3 byte values on 3 small documents'}
        return ev


def _tmpl(msg):
    msg = str(msg or '')
    if len(msg) > 1 and msg[0] == msg[-1] and msg[0] in '\'"':
        msg = msg[1:-1]        # KeyError style repr quoting
    return canon.template(msg)


def _chained(exc, injected):
    seen = 0
    while exc is not None and seen < 10:
        if exc is injected:
            return True
        if exc.args and any(a is injected for a in exc.args):
            return True
        exc = exc.__cause__ or exc.__context__
        seen += 1
    return False


CHECK = C11
