"""
C12 - resource access control confines every fetch to the allowed class of locations.

Seam: a scratch file tree (SimWorld) + the remote peer (SimPeer, installed as the global
opener) + the audit-hook monitor. Oracle: an independent classifier written against the
statement (local = served by the OS, remote = reached the peer, inside the sandbox =
realpath has the sandbox directory as a path-component prefix), applied to the complete log
of fetches the process attempted; plus non-influence (a denied target's marker component
never appears in the built maps).
"""
import os
import pickle
import shutil
import warnings

from sim import core, canon, simio
from sim.core import Check, parallel_map
from sim.simio import SimPeer, Monitor, make_stream
from pool.pool import scratch_dir
from checks.common import jcopy, short

ALLOW = ('all', 'remote', 'local', 'sandbox', 'none')
POST_BUILD = ('wildcard_load_namespace', 'hint_meta_namespace', 'hint_on_meta_element', 'hint_resource_outside',
              'api_include_schema', 'api_import_schema', 'api_add_schema', 'api_ctor_global_maps', 'hint_iter_errors',
              'xmldocument_parse')
MECHANISMS = ('include', 'import', 'redefine', 'override', 'chained', 'locations_arg', 'uri_mapper_dict',
              'uri_mapper_call', 'hint_iter_errors', 'hint_validate', 'fallback_absent', 'fallback_illformed',
              'fallback_404', 'fallback_timeout', 'wildcard_load_namespace', 'xmldocument_parse',
              'hint_to_dict', 'hint_fetch_schema', 'hint_meta_namespace', 'hint_on_meta_element', 'hint_resource_outside',
              'api_include_schema', 'api_import_schema', 'api_add_schema', 'api_ctor_global_maps')
MAIN_KINDS = ('path', 'fileurl', 'remote', 'text_base', 'stream_url', 'stream_remote_url', 'stream_url_dotdot',
              'prebuilt_text')

# (id, spelling template relative to the main document's directory, class of the target, marker id)
# {W} = world root, {F} = inc.xsd / imp.xsd depending on the mechanism
SPELLINGS = (
    ('rel', '{F}', 'inside', 'sand'),
    ('dot', './{F}', 'inside', 'sand'),
    ('sub', 'sub/{F}', 'inside', 'sand_sub'),
    ('subup', 'sub/../{F}', 'inside', 'sand'),
    ('leave_reenter', '../sand/{F}', 'inside', 'sand'),
    ('abs_inside', '{W}/base/sand/{F}', 'inside', 'sand'),
    ('fileurl3_inside', 'file://{W}/base/sand/{F}', 'inside', 'sand'),
    ('fileurl1_inside', 'file:{W}/base/sand/{F}', 'inside', 'sand'),
    ('pct_inside', '%2E/sub/%2E%2E/{F}', 'inside', 'sand'),
    ('parent', '../{F}', 'outside', 'parent'),
    ('sibling', '../other/{F}', 'outside', 'other'),
    ('prefix_sibling', '../sand_evil/{F}', 'outside', 'evil'),
    ('leave_prefix', '../other/../sand_evil/{F}', 'outside', 'evil'),
    ('deep_leave', 'sub/../../other/{F}', 'outside', 'other'),
    ('abs_outside', '{W}/outside/{F}', 'outside', 'outside'),
    ('fileurl3_outside', 'file://{W}/outside/{F}', 'outside', 'outside'),
    ('mixedcase_scheme', 'FILE://{W}/outside/{F}', 'outside', 'outside'),
    ('pct_dots', '%2e%2e/other/{F}', 'outside', 'other'),
    ('pct_slash', '..%2Fother%2F{F}', 'outside', 'other'),
    ('abs_prefix', '{W}/base/sand_evil/{F}', 'outside', 'evil'),
    ('abs_through_dotdot', '{W}/base/sand/../other/{F}', 'outside', 'other'),
    ('fileurl_through_dotdot', 'file://{W}/base/sand/../other/{F}', 'outside', 'other'),
    ('abs_through_pct_dotdot', '{W}/base/sand/%2e%2e/other/{F}', 'outside', 'other'),
    ('abs_sub_dotdot_dotdot', '{W}/base/sand/sub/../../{F}', 'outside', 'parent'),
    ('abs_inside_dotdot', '{W}/base/sand/sub/../{F}', 'inside', 'sand'),
    ('abs_other_tree_sandbox', '{W}-A/base/sand/{F}', 'outside', 'sand'),
    # percent-encoded TWICE: decoded once it is a literal directory name '%2e%2e' that does not exist; a second
    # decoding anywhere between the check and the open would make it a parent step
    ('pct2_dots', '%252e%252e/other/{F}', 'outside', 'other'),
    ('abs_pct2_dots', 'file://{W}/base/sand/%252e%252e/other/{F}', 'outside', 'other'),
    # a relative location that names nothing under the base directory but an existing file under the process's
    # working directory (which is outside the sandbox): resolving it anywhere but against the base reaches that file
    ('rel_cwd_only', 'cwdonly/{F}', 'outside', 'cwdonly'),
    ('http', 'http://sim.test/r/{F}', 'remote', 'remote'),
    ('https_upper', 'HTTPS://sim.test/r/{F}', 'remote', 'remote'),
    ('ftp', 'ftp://sim.test/r/{F}', 'remote', 'remote'),
    ('custom_scheme', 'x-custom://sim.test/r/{F}', 'remote', 'remote'),
    # remote-looking schemes WITHOUT an authority part
    ('urn_noauth', 'urn:simr-{F}', 'remote', 'remote'),
    ('stub_noauth', 'stub:r-{F}', 'remote', 'remote'),
)
SPELL = {s[0]: s for s in SPELLINGS}

NS_MAIN = 'urn:main'
NS_T = 'urn:target'
NS_XML = 'http://www.w3.org/XML/1998/namespace'


def xmlns_xsd(marker):
    return (f'<xs:schema xmlns:xs="http://www.w3.org/2001/XMLSchema" targetNamespace="{NS_XML}">\n'
            f' <xs:attribute name="mk_{marker}" type="xs:int"/>\n</xs:schema>\n')


def inc_xsd(marker):
    return (f'<xs:schema xmlns:xs="http://www.w3.org/2001/XMLSchema" targetNamespace="{NS_MAIN}" '
            f'xmlns:m="{NS_MAIN}" elementFormDefault="qualified">\n'
            f' <xs:simpleType name="RT"><xs:restriction base="xs:string"/></xs:simpleType>\n'
            f' <xs:element name="mk_{marker}" type="xs:int"/>\n</xs:schema>\n')


def imp_xsd(marker):
    return (f'<xs:schema xmlns:xs="http://www.w3.org/2001/XMLSchema" targetNamespace="{NS_T}" '
            f'elementFormDefault="qualified">\n <xs:element name="mk_{marker}" type="xs:int"/>\n'
            f' <xs:element name="fetched" type="xs:int"/>\n</xs:schema>\n')


def main_xsd(mech, loc, version):
    head = (f'<xs:schema xmlns:xs="http://www.w3.org/2001/XMLSchema" targetNamespace="{NS_MAIN}" '
            f'xmlns:m="{NS_MAIN}" xmlns:t="{NS_T}" elementFormDefault="qualified">\n')
    body = ''
    if mech == 'include':
        body = f' <xs:include schemaLocation="{loc}"/>\n'
    elif mech == 'redefine':
        body = (f' <xs:redefine schemaLocation="{loc}"><xs:simpleType name="RT"><xs:restriction base="m:RT">'
                f'<xs:maxLength value="5"/></xs:restriction></xs:simpleType></xs:redefine>\n')
    elif mech == 'override':
        body = (f' <xs:override schemaLocation="{loc}"><xs:simpleType name="RT"><xs:restriction base="xs:token"/>'
                f'</xs:simpleType></xs:override>\n')
    elif mech == 'chained':
        body = ' <xs:include schemaLocation="chain.xsd"/>\n'
    elif mech in ('import', 'uri_mapper_dict', 'uri_mapper_call') or mech.startswith('fallback'):
        body = f' <xs:import namespace="{NS_T}" schemaLocation="{loc}"/>\n'
    elif mech == 'locations_arg':
        body = f' <xs:import namespace="{NS_T}"/>\n'
    body += (' <xs:element name="root"><xs:complexType><xs:sequence>'
             '<xs:element name="wrap" minOccurs="0"><xs:complexType><xs:sequence>'
             '<xs:any namespace="##other" processContents="lax" minOccurs="0" maxOccurs="unbounded"/>'
             '</xs:sequence></xs:complexType></xs:element>'
             '<xs:any namespace="##other" processContents="lax" minOccurs="0" maxOccurs="unbounded"/>'
             '</xs:sequence></xs:complexType></xs:element>\n')
    return head + body + '</xs:schema>\n'


class World:
    def __init__(self, root):
        self.root = root
        for d, marker in (('base/sand', 'sand'), ('base/sand/sub', 'sand_sub'), ('base', 'parent'),
                          ('base/other', 'other'), ('base/sand_evil', 'evil'), ('outside', 'outside'),
                          ('outside/cwdonly', 'cwdonly')):
            p = os.path.join(root, d)
            os.makedirs(p, exist_ok=True)
            with open(os.path.join(p, 'inc.xsd'), 'w') as fp:
                fp.write(inc_xsd(marker))
            with open(os.path.join(p, 'imp.xsd'), 'w') as fp:
                fp.write(imp_xsd(marker))
            with open(os.path.join(p, 'xmlns.xsd'), 'w') as fp:
                fp.write(xmlns_xsd(marker))
        self.sand = os.path.join(root, 'base/sand')

    def write(self, rel, text):
        p = os.path.join(self.root, rel)
        os.makedirs(os.path.dirname(p), exist_ok=True)
        with open(p, 'w') as fp:
            fp.write(text)
        return p


def classify_fetch(world, ev):
    """-> ('local', realpath) | ('remote', url)."""
    if ev[0] == 'open':
        return 'local', os.path.realpath(ev[1])
    return 'remote', ev[1]


def inside_sandbox(sand, realpath):
    try:
        return os.path.commonpath([os.path.realpath(sand), realpath]) == os.path.realpath(sand)
    except ValueError:
        return False


class C12(Check):
    PROP = 'C12'
    LEVEL = 'fault_enumeration'
    POOL_DEPENDS_ON_SEED = False      # cases are self-contained: canonical replays run under every VERIF_SEED
    GROUP = 8
    RULE = ("case = (allow mode, main source kind, mechanism, target spelling, base_url trailing slash, XSD version) "
            "- the product of 5 allow modes x 14 mechanisms x 24 spellings is enumerated (thorough: completely, with "
            "every main source kind; quick: one seeded main kind per point of a seeded third of the product); fetch "
            "faults (absent / ill-formed / 404 / time-out first candidate) drive the fallback loop to a second "
            "candidate of another class. Pairs that do not fetch their target under allow='all' are vacuous and "
            "excluded. Non-trivial iff the library attempted or refused at least one fetch beyond the main source.")
    ASSUMPTIONS = [
        "every fetch goes through open()/urlopen and is therefore seen by the audit hook or the stub peer",
        "inside the sandbox = os.path.realpath has the sandbox directory as a path-component prefix (symlink-free tree)",
        "schemes other than file / none / single letter are remote",
    ]
    REAL_STUB = {
        'real': ['xmlschema loaders / XMLResource.access_control / urls normalisation', 'urllib', 'OS file system'],
        'stub': ['remote hosts (SimPeer)', 'audit-hook monitor (sys.addaudithook)'],
    }

    def setup(self, tier, master_seed):
        self.tier = tier
        self.scratch = scratch_dir()
        self.monitor = Monitor.get()
        import xmlschema
        self.pkg_schemas = os.path.join(os.path.dirname(xmlschema.__file__), 'schemas')
        # vacuity control: every (mechanism, spelling) pair must fetch its target under allow='all'
        # (the spelling of the hint is irrelevant where the INSTANCE's own location decides: one spelling only)
        pairs = [(m, s[0]) for m in MECHANISMS for s in SPELLINGS if m != 'hint_resource_outside' or s[0] == 'rel']
        res = parallel_map(self._vacuity, pairs, timeout=120)
        # hints for a namespace the meta-schema owns are never to be followed: "not fetched under allow='all'" is
        # the correct behaviour there, not vacuity
        always = ('hint_meta_namespace', 'hint_on_meta_element')
        # (the twice-encoded spellings name nothing that exists: "not fetched" is the correct behaviour in every mode)
        always_spell = ('pct2_dots', 'abs_pct2_dots', 'rel_cwd_only')
        self.live = [p for p, r in zip(pairs, res) if r or p[0] in always or p[1] in always_spell]
        self.vacuous = [list(p) for p, r in zip(pairs, res) if not r and p[0] not in always and p[1] not in always_spell]
        self.points = [(a, m, s) for a in ALLOW for (m, s) in self.live]
        rng = core.sub_rng(master_seed, 'c12-order')
        rng.shuffle(self.points)
        # mechanisms with a single live spelling would mostly fall outside the quick tier's third: they go first
        self.points.sort(key=lambda p: p[1] != 'hint_resource_outside')

    def _vacuity(self, pair):
        m, s = pair
        case = {'allow': 'all', 'mech': m, 'spell': s, 'main': 'path', 'slash': True, 'version': '1.1' if m == 'override' else '1.0'}
        r = self.run_case(case)
        return bool(r['counters'].get('target_fetched'))

    def n_cases(self, tier):
        if tier == 'quick':
            return max(len(self.points) // 3, 300)
        return len(self.points) * len(MAIN_KINDS)

    def gen_case(self, rng, index):
        a, m, s = self.points[index % len(self.points)]
        if self.tier == 'quick':
            # the sandbox variations (relative / missing / empty base_url, other tree) hang on a path main source
            main = 'path' if a == 'sandbox' and rng.random() < 0.4 else rng.choice(MAIN_KINDS)
        else:
            main = MAIN_KINDS[(index // len(self.points)) % len(MAIN_KINDS)]
        version = '1.1' if m == 'override' else rng.choice(['1.0', '1.1'])
        self._relbase = rng.random() < 0.25
        if s == 'abs_other_tree_sandbox' and a == 'sandbox' and not m.startswith('hint_'):
            self._relbase, main = True, 'path'     # the two-step (other cwd, same relative base) case
        if m in ('hint_validate', 'hint_to_dict', 'hint_fetch_schema'):
            main = 'path'      # the instance document is the main source; the schema comes from its hints
        relbase = bool(self._relbase and main in ('path', 'text_base') and a == 'sandbox')
        nobase = bool(a == 'sandbox' and main in ('path', 'fileurl') and not relbase and rng.random() < 0.5)
        emptybase = bool(a == 'sandbox' and main in ('path', 'text_base') and not relbase and not nobase and rng.random() < 0.4)
        return {'allow': a, 'mech': m, 'spell': s, 'main': main, 'slash': rng.random() < 0.5, 'version': version,
                'relbase': relbase, 'nobase': nobase, 'emptybase': emptybase,
                # the main source itself lies in the OTHER tree (outside the sandbox of the current directory)
                'othertree': bool((relbase or emptybase) and main == 'path' and rng.random() < 0.5),
                # the schema object goes through a pickle before the mechanisms that act on a built schema
                'pickled': bool(m in POST_BUILD and rng.random() < 0.3)}

    # ------------------------------------------------------------------
    def run_case(self, case):
        import xmlschema
        allow, mech, main_kind = case['allow'], case['mech'], case['main']
        sid, tmpl, tclass, marker = SPELL[case['spell']]
        root = os.path.join(self.scratch, f'c12-{os.getpid()}')
        shutil.rmtree(root, ignore_errors=True)
        world = World(root)
        peer = SimPeer()
        peer.install()
        counters = {}
        violations = []

        def meta_names():
            return {n for c in (xmlschema.XMLSchema10, xmlschema.XMLSchema11)
                    for n in list(c.meta_schema.maps.attributes) + list(c.meta_schema.maps.elements) if 'mk_' in n}
        meta_before = meta_names()      # (the class-level meta-schemas outlive a case: only what THIS case adds counts)
        import_like = mech in ('import', 'locations_arg', 'uri_mapper_dict', 'uri_mapper_call', 'hint_iter_errors',
                               'hint_validate', 'hint_to_dict', 'hint_fetch_schema', 'wildcard_load_namespace',
                               'xmldocument_parse', 'hint_on_meta_element', 'hint_resource_outside',
                               'api_import_schema', 'api_ctor_global_maps') or mech.startswith('fallback')
        if mech == 'hint_resource_outside':
            # the instance is a pre-built XMLResource that lives OUTSIDE the schema's sandbox; its relative hint
            # resolves next to it
            tclass, marker = 'outside', 'outside'
        fname = 'imp.xsd' if import_like else 'inc.xsd'
        if mech == 'hint_meta_namespace':
            fname = 'xmlns.xsd'
        loc = tmpl.replace('{W}', root).replace('{F}', fname)
        remote_main = main_kind == 'remote'
        # remote pages: the main tree mirrored at http://sim.test/base/sand/..., targets at /r/
        for scheme in ('http', 'https', 'ftp', 'x-custom'):
            peer.pages[f'{scheme}://sim.test/r/inc.xsd'] = inc_xsd('remote').encode()
            peer.pages[f'{scheme}://sim.test/r/imp.xsd'] = imp_xsd('remote').encode()
        for scheme in ('http', 'https', 'ftp', 'x-custom'):
            peer.pages[f'{scheme}://sim.test/r/xmlns.xsd'] = xmlns_xsd('remote').encode()
        peer.pages['urn:simr-xmlns.xsd'] = peer.pages['stub:r-xmlns.xsd'] = xmlns_xsd('remote').encode()
        for f_, fn in (('inc.xsd', inc_xsd), ('imp.xsd', imp_xsd)):
            peer.pages[f'urn:simr-{f_}'] = fn('remote').encode()
            peer.pages[f'stub:r-{f_}'] = fn('remote').encode()
        if remote_main:
            for d, mk in (('base/sand', 'sand'), ('base/sand/sub', 'sand_sub'), ('base', 'parent'),
                          ('base/other', 'other'), ('base/sand_evil', 'evil')):
                peer.pages[f'http://sim.test/{d}/inc.xsd'] = inc_xsd(mk).encode()
                peer.pages[f'http://sim.test/{d}/imp.xsd'] = imp_xsd(mk).encode()

        kw = {'allow': allow}
        uri = loc
        if mech == 'uri_mapper_dict':
            kw['uri_mapper'] = {'urn:mapped-target': loc}
            uri = 'urn:mapped-target'
        elif mech == 'uri_mapper_call':
            kw['uri_mapper'] = lambda u, _l=loc: _l if u == 'urn:mapped-target' else u
            uri = 'urn:mapped-target'
        elif mech in ('locations_arg', 'wildcard_load_namespace'):
            kw['locations'] = {NS_T: loc}
        fault = None
        if mech.startswith('fallback'):
            # first candidate (inside the sandbox) fails, the second (the spelled target) is tried next
            fault = mech.split('_', 1)[1]
            first = 'missing.xsd'
            if fault == 'illformed':
                world.write('base/sand/broken.xsd', '<xs:schema xmlns:xs="http://www.w3.org/2001/XMLSchema"><oops')
                first = 'broken.xsd'
            elif fault == '404':
                peer.pages['http://sim.test/r/gone.xsd'] = 'http404'
                first = 'http://sim.test/r/gone.xsd'
            elif fault == 'timeout':
                peer.pages['http://sim.test/r/slow.xsd'] = 'timeout'
                first = 'http://sim.test/r/slow.xsd'
            uri = first
            kw['locations'] = {NS_T: loc}
        text = main_xsd(mech if not mech.startswith(('hint', 'wildcard', 'xmldocument', 'api_')) else 'none', uri, case['version'])
        if mech == 'chained':
            chain = (f'<xs:schema xmlns:xs="http://www.w3.org/2001/XMLSchema" targetNamespace="{NS_MAIN}">\n'
                     f' <xs:include schemaLocation="{loc}"/>\n</xs:schema>\n')
            world.write('base/sand/chain.xsd', chain)
            peer.pages['http://sim.test/base/sand/chain.xsd'] = chain.encode()
        main_path = world.write('base/sand/main.xsd', text)
        base_dir = world.sand + ('/' if case['slash'] else '')
        nobase = bool(case.get('nobase'))
        if main_kind == 'path':
            source = main_path
            if allow == 'sandbox' and not nobase:
                kw['base_url'] = base_dir
        elif main_kind == 'fileurl':
            source = 'file://' + main_path
            if allow == 'sandbox' and not nobase:
                kw['base_url'] = 'file://' + base_dir
        elif main_kind == 'remote':
            source = 'http://sim.test/base/sand/main.xsd'
            peer.pages[source] = text.encode()
            if allow == 'sandbox':
                kw['base_url'] = 'http://sim.test/base/sand' + ('/' if case['slash'] else '')
        elif main_kind == 'text_base':
            source = text
            kw['base_url'] = base_dir
        elif main_kind == 'stream_remote_url':
            # what urlopen() returns for a remote URL: a file-like object that carries its origin in .url
            source = make_stream('buffered', text.encode(), url='http://sim.test/base/sand/main.xsd', seekable=False)
            peer.pages['http://sim.test/base/sand/main.xsd'] = text.encode()
        elif main_kind == 'prebuilt_text':
            # the caller's own XMLResource built from TEXT: it has no location, so nothing gives the schema a base
            source = xmlschema.XMLResource(text)
        elif main_kind == 'stream_url_dotdot':
            # an open response whose origin is spelled THROUGH the sandbox but lies outside it
            world.write('base/other/main.xsd', text)
            source = make_stream('buffered', text.encode(), url='file://' + world.sand + '/../other/main.xsd')
            kw['base_url'] = base_dir
        else:
            source = make_stream('buffered', text.encode(), url='file://' + main_path)
            kw['base_url'] = base_dir
        cls = xmlschema.XMLSchema11 if case['version'] == '1.1' else xmlschema.XMLSchema10
        saved_cwd = os.getcwd()
        if case.get('emptybase'):
            # base_url='' (what os.path.dirname('doc.xml') yields) with the working directory = the sandbox
            os.chdir(world.sand)
            kw['base_url'] = ''
            counters['empty_base_url_cwd_in_sandbox'] = 1
        # a second, identical tree (the 'other working directory' of the two-step cases and the target of the
        # abs_other_tree_sandbox spelling)
        root_a = root + '-A'
        shutil.rmtree(root_a, ignore_errors=True)
        world_a = World(root_a)
        if case.get('relbase'):
            # step 1 (prelude): the same RELATIVE base_url string under another working directory and tree
            os.chdir(root_a)
            try:
                with warnings.catch_warnings():
                    warnings.simplefilter('ignore')
                    cls(world_a.write('base/sand/main.xsd', main_xsd('include', 'inc.xsd', case['version'])),
                        allow='sandbox', base_url='base/sand' + ('/' if case['slash'] else ''))
            except Exception:
                pass
            # step 2: the real case, relative base under the real tree
            os.chdir(root)
            kw['base_url'] = 'base/sand' + ('/' if case['slash'] else '')
            counters['relative_base_with_chdir_prelude'] = 1
        if case.get('othertree'):
            source = world_a.write('base/sand/main.xsd', text)
            counters['main_source_in_other_tree'] = 1
        if case['spell'] == 'rel_cwd_only' and not case.get('relbase') and not case.get('emptybase'):
            os.chdir(os.path.join(root, 'outside'))
            counters['cwd_outside_holds_the_relative_location'] = 1

        schema = None
        outcome = {'exc': None, 'msg': None, 'warnings': []}
        doc_path = None
        if mech in ('hint_validate', 'hint_iter_errors', 'hint_to_dict', 'hint_fetch_schema'):
            # written BEFORE the monitor is armed: the harness' own writes are not fetches
            doc_path = world.write('base/sand/doc.xml', self.hint_doc(loc, main_first=mech != 'hint_iter_errors'))
        doc2_path = None
        if mech == 'hint_meta_namespace':
            # a hint BELOW the root for a namespace the meta-schema owns
            doc_path = world.write('base/sand/doc.xml',
                                   f'<m:root xmlns:m="{NS_MAIN}" xmlns:xsi="http://www.w3.org/2001/XMLSchema-instance">'
                                   f'<m:wrap xsi:schemaLocation="{NS_XML} {loc}"/></m:root>')
        if mech == 'hint_fetch_schema':
            doc2_path = world.write('base/sand/doc2.xml',
                                    f'<t:fetched xmlns:t="{NS_T}" xmlns:xsi="http://www.w3.org/2001/XMLSchema-instance" '
                                    f'xsi:schemaLocation="{NS_T} {loc}">1</t:fetched>')
        if mech == 'hint_on_meta_element':
            # the hint sits on an element of the XSD namespace admitted by a lax wildcard: it is validated by the
            # META-schema's element declaration, whose own maps are not the confined ones
            doc_path = world.write('base/sand/doc.xml',
                                   f'<m:root xmlns:m="{NS_MAIN}" xmlns:xsi="http://www.w3.org/2001/XMLSchema-instance" '
                                   f'xmlns:xs="http://www.w3.org/2001/XMLSchema"><m:wrap>'
                                   f'<xs:annotation xsi:schemaLocation="{NS_T} {loc}"/></m:wrap></m:root>')
        if mech == 'hint_resource_outside':
            doc_path = world.write('outside/doc.xml', self.hint_doc('imp.xsd'))
        if mech in ('wildcard_load_namespace', 'xmldocument_parse'):
            doc_path = world.write('base/sand/doc.xml', f'<m:root xmlns:m="{NS_MAIN}"><t:fetched xmlns:t="{NS_T}">1'
                                                        f'</t:fetched></m:root>')
        self.monitor.start([root, self.pkg_schemas] + ([root_a] if root_a else []))
        try:
            with warnings.catch_warnings(record=True) as wlist:
                warnings.simplefilter('always')
                try:
                    if mech in ('hint_validate', 'hint_to_dict', 'hint_fetch_schema'):
                        vkw = {'allow': allow}
                        if allow == 'sandbox' and not nobase:
                            vkw['base_url'] = '' if case.get('emptybase') else base_dir
                        if mech == 'hint_validate':
                            xmlschema.validate(doc_path, cls=cls, **vkw)
                        elif mech == 'hint_to_dict':
                            outcome['data'] = repr(xmlschema.to_dict(doc_path, cls=cls, validation='lax', **vkw))[:80]
                        else:
                            # the hint for the target namespace only: does it get probed?
                            outcome['url'] = xmlschema.fetch_schema(doc2_path, **vkw)
                    else:
                        schema = cls(source, **kw)
                        if case.get('pickled'):
                            # a schema that was stored or sent to a worker stays confined as it was built (the
                            # reads of the restore itself are fetches like any other)
                            try:
                                blob = pickle.dumps(schema)
                            except Exception:
                                counters['pickle_not_possible'] = 1   # e.g. a caller's function among the settings
                            else:
                                schema = pickle.loads(blob)
                                counters['schema_restored_from_pickle'] = 1
                        if mech == 'wildcard_load_namespace':
                            # a lax wildcard meets an unknown namespace: the loader tries the locations= hints
                            outcome['errors'] = [e.reason for e in schema.iter_errors(doc_path)]
                        elif mech == 'xmldocument_parse':
                            dkw = {k: v for k, v in kw.items() if k in ('allow', 'base_url')}
                            if allow == 'sandbox' and 'base_url' not in dkw:
                                dkw['base_url'] = base_dir
                            xdoc = xmlschema.XmlDocument(doc_path, schema=schema, validation='skip', **dkw)
                            xdoc.parse(loc if '://' in loc or loc.startswith('/') else os.path.join(world.sand, loc))
                            outcome['doc_allow_after_parse'] = xdoc.allow
                        if mech in ('hint_meta_namespace', 'hint_on_meta_element'):
                            outcome['errors'] = [e.reason for e in schema.iter_errors(doc_path, use_location_hints=True)]
                        if mech == 'hint_resource_outside':
                            res = xmlschema.XMLResource(doc_path)       # the caller's own resource, own settings
                            outcome['errors'] = [e.reason for e in schema.iter_errors(res, use_location_hints=True)]
                        # the programmatic forms of include / import: the caller names the location next to the main
                        # schema (a relative spelling is joined to its directory, as a caller working elsewhere would)
                        api_loc = loc if '://' in loc or loc.startswith(('/', 'file:', 'FILE:', 'urn:', 'stub:')) \
                            else os.path.join(world.sand, loc)
                        if mech == 'api_include_schema':
                            schema.include_schema(api_loc, build=True)
                        elif mech == 'api_import_schema':
                            schema.import_schema(NS_T, api_loc, build=True)
                        elif mech == 'api_add_schema':
                            schema.add_schema(api_loc, build=True)
                        elif mech == 'api_ctor_global_maps':
                            # one more document joins the maps of the confined schema through the constructor
                            cls(api_loc, global_maps=schema.maps)
                        if mech == 'hint_iter_errors':
                            outcome['errors'] = [e.reason for e in schema.iter_errors(doc_path, use_location_hints=True)]
                except BaseException as exc:
                    if type(exc).__name__ in ('CaseTimeout', 'KeyboardInterrupt', 'SystemExit'):
                        raise
                    outcome['exc'] = type(exc).__name__
                    outcome['lib'] = isinstance(exc, xmlschema.XMLSchemaException)
                    outcome['msg'] = canon.mask(str(exc))[:300]
            outcome['warnings'] = [str(w.message)[:200] for w in wlist]
        finally:
            events = self.monitor.stop()
            os.chdir(saved_cwd)
            shutil.rmtree(root, ignore_errors=True)
            if root_a:
                shutil.rmtree(root_a, ignore_errors=True)

        # ---- the complete fetch log, classified independently ------------------
        fetches = [classify_fetch(world, ev) for ev in events if ev[0] == 'open'] + \
                  [('remote', u) for u in peer.log]
        sockets = [ev for ev in events if ev[0] == 'socket']
        main_real = os.path.realpath(main_path)
        doc_real = os.path.realpath(doc2_path or doc_path) if (doc2_path or doc_path) else None
        sigbase = {'allow': allow, 'mech': mech.split('_')[0] if mech.startswith('fallback') else mech}
        beyond = 0
        target_fetched = False
        for kind, where in fetches:
            is_main = (kind == 'local' and where == main_real and main_kind in ('path', 'fileurl')) or \
                      (kind == 'remote' and where == 'http://sim.test/base/sand/main.xsd')
            is_doc = kind == 'local' and where == doc_real
            if not is_main and not is_doc:
                beyond += 1
            if where.endswith(('inc.xsd', 'imp.xsd', 'xmlns.xsd')):
                target_fetched = True
            ok = True
            if allow == 'none':
                ok = False
            elif allow == 'local':
                ok = kind == 'local'
            elif allow == 'remote':
                ok = kind == 'remote'
            elif allow == 'sandbox':
                # only FILES inside the base directory: a remote location is never inside a sandbox
                ok = kind == 'local' and (inside_sandbox(world.sand, where) or
                                          where.startswith(os.path.realpath(self.pkg_schemas)))
            if kind == 'local' and where.startswith(os.path.realpath(self.pkg_schemas)) and allow in ('local', 'all'):
                ok = True
            if is_doc and mech in ('hint_validate', 'hint_to_dict', 'hint_fetch_schema'):
                ok = True      # the instance document handed to validate() is the main source itself
                if allow == 'none' and mech != 'hint_fetch_schema':
                    ok = False
                # fetch_schema() documents its allow argument as "applied to location hints only": the source
                # document it is asked to inspect is opened whatever the mode
            if is_doc and mech == 'hint_resource_outside':
                ok = True      # opened by the caller's own XMLResource, under the caller's own settings
            if not ok:
                rel = where.replace(os.path.realpath(root), '{W}') if kind == 'local' else where
                violations.append({'signature': dict(sigbase, clause='forbidden-fetch', fetched_class=kind,
                                                     target_class=tclass if not is_main else 'main',
                                                     spelling=sid if not is_main else 'main'),
                                   'detail': {'case': case, 'fetched': rel, 'log': short(fetches, 800),
                                              'outcome': outcome}})
                break
        if sockets:
            violations.append({'signature': dict(sigbase, clause='socket-event'),
                               'detail': {'case': case, 'events': short(sockets)}})
        # ---- non-influence: a denied target's marker never appears in the maps ----
        denied = self.denied(allow, tclass, remote_main)
        leaked = False
        maps_schema = schema
        if maps_schema is not None:
            names = set()
            try:
                names = {n for n in maps_schema.maps.elements if 'mk_' in n}
            except Exception:
                pass
            leaked = any(n.endswith('mk_' + marker) for n in names)
            if leaked:
                counters['marker_present'] = 1
            if denied and leaked:
                violations.append({'signature': dict(sigbase, clause='denied-content-influences-result',
                                                     target_class=tclass, spelling=sid),
                                   'detail': {'case': case, 'names': sorted(names), 'outcome': outcome}})
        meta_leak = sorted(meta_names() - meta_before)
        if meta_leak:
            violations.append({'signature': dict(sigbase, clause='meta-schema-maps-extended-by-instance-hint'),
                               'detail': {'case': case, 'names': meta_leak[:5]}})
        # ---- a main source handed over as an open response is classed by the origin it names ------------
        stream_origin = {'stream_url': 'local', 'stream_remote_url': 'remote', 'stream_url_dotdot': 'local-outside'}.get(main_kind)
        if stream_origin and not mech.startswith(('hint_val', 'hint_to', 'hint_fetch')):
            origin_denied = allow == 'none' or (allow == 'local' and stream_origin == 'remote') or \
                (allow == 'remote' and stream_origin.startswith('local')) or \
                (allow == 'sandbox' and stream_origin in ('remote', 'local-outside'))
            refused = outcome['exc'] == 'XMLResourceBlocked' or \
                (outcome['exc'] == 'XMLSchemaValueError' and 'sandbox' in (outcome.get('msg') or ''))
            if origin_denied and not refused:
                violations.append({'signature': dict(sigbase, clause='denied-origin-stream-accepted', origin=stream_origin,
                                                     outcome=outcome['exc'] or 'loaded'),
                                   'detail': {'case': case, 'outcome': outcome}})
            counters['stream_main_origin_' + stream_origin] = 1
        # ---- a denied location is reported as blocked / warning / skipped -----------
        if outcome['exc'] and not outcome.get('lib'):
            violations.append({'signature': dict(sigbase, clause='foreign-exception', cls=outcome['exc']),
                               'detail': {'case': case, 'outcome': outcome}})
        if denied and not target_fetched:
            counters['denied_and_not_fetched'] = 1
            if outcome['exc'] == 'XMLResourceBlocked':
                counters['surfaced_as_XMLResourceBlocked'] = 1
            elif outcome['warnings']:
                counters['surfaced_as_warning'] = 1
            elif outcome['exc']:
                counters['surfaced_as_' + outcome['exc']] = 1
            else:
                counters['surfaced_as_skipped'] = 1
        if target_fetched:
            counters['target_fetched'] = 1
        counters['fetches_total'] = len(fetches)
        counters['mech_' + mech] = 1
        if mech.startswith('fallback') and len(fetches) >= 1:
            counters['probe_fallback_location_tried_after_failed_fetch'] = int(target_fetched or any(
                k == 'remote' and w.endswith(('gone.xsd', 'slow.xsd')) for k, w in fetches))
        refused = outcome['exc'] in ('XMLResourceBlocked',) or any('lock' in w for w in outcome['warnings'])
        if outcome.get('doc_allow_after_parse') not in (None, allow):
            violations.append({'signature': dict(sigbase, clause='allow-mode-changed-by-parse', now=outcome['doc_allow_after_parse']),
                               'detail': {'case': case, 'outcome': outcome}})
        skeleton = [allow, main_kind, mech, sid, case['slash'] if allow == 'sandbox' else None, case.get('relbase', False),
                    case.get('nobase', False), case.get('emptybase', False)]
        return {'violations': violations, 'skeleton': skeleton, 'nontrivial': bool(beyond or refused or denied),
                'counters': counters, 'digest': core.stable_hash([fetches_rel(fetches, root), outcome['exc']]),
                'sample': {'case': case, 'fetches': fetches_rel(fetches, root)[:6], 'outcome': outcome['exc']}}

    def denied(self, allow, tclass, remote_main):
        if allow == 'all':
            return False
        if allow == 'none':
            return True
        if remote_main:
            # relative spellings resolve against the remote base: everything is remote
            if allow == 'remote':
                return False
            return True      # 'local' and 'sandbox' admit no remote location at all
        if allow == 'local':
            return tclass == 'remote'
        if allow == 'remote':
            return tclass != 'remote'
        return tclass != 'inside'

    def hint_doc(self, loc, main_first=False):
        hints = f'{NS_T} {loc}'
        if main_first:
            hints = f'{NS_MAIN} main.xsd ' + hints
        if not main_first:
            # dynamic loading (use_location_hints) follows hints found BELOW the root element
            return (f'<m:root xmlns:m="{NS_MAIN}" xmlns:xsi="http://www.w3.org/2001/XMLSchema-instance">'
                    f'<m:wrap xsi:schemaLocation="{hints}"><t:fetched xmlns:t="{NS_T}">1</t:fetched></m:wrap></m:root>')
        return (f'<m:root xmlns:m="{NS_MAIN}" xmlns:t="{NS_T}" '
                f'xmlns:xsi="http://www.w3.org/2001/XMLSchema-instance" xsi:schemaLocation="{hints}">'
                f'<t:fetched>1</t:fetched></m:root>')

    def shrink(self, case):
        if case['main'] != 'path':
            c = jcopy(case)
            c['main'] = 'path'
            yield c
        if not case['slash']:
            c = jcopy(case)
            c['slash'] = True
            yield c

    def extra_evidence(self):
        return {'vacuous_pairs_excluded': self.vacuous, 'live_pairs': len(self.live),
                'enumerated_points': len(self.points), 'exhaustive': self.tier == 'thorough'}


def fetches_rel(fetches, root):
    rr = os.path.realpath(root)
    return [[k, w.replace(rr, '{W}')] for k, w in fetches]


CHECK = C12
