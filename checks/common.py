"""Shared scaffolding of the pool based checks: pool, reference table, delivery accounting."""
import json
import os

from sim import core, canon, ops, simio
from sim.core import Check, parallel_map
from pool.pool import build_pool, sanity_check, scratch_dir


class PoolCheck(Check):
    FAMILIES = ()
    CORPUS = False
    VERSIONS = ('1.0', '1.1')

    def __init__(self):
        self.entries = {}
        self.refs = {}
        self.not_rejected = []

    def setup(self, tier, master_seed):
        self.tier = tier
        self.master_seed = master_seed
        self.entries = build_pool(master_seed, names=self.FAMILIES, versions=self.VERSIONS, corpus=self.CORPUS)
        self.not_rejected = sanity_check(self.entries)
        self.keys = sorted(self.entries)
        self.scratch = scratch_dir()
        items = []
        for key in self.keys:
            e = self.entries[key]
            for di, d in enumerate(e.docs):
                for rop in self.ref_ops(e, d):
                    items.append((key, di, rop))
        results = parallel_map(self._eval_ref, items, timeout=120)
        for (key, di, rop), res in zip(items, results):
            self.refs[(key, di, json.dumps(rop, sort_keys=True))] = res
        self.post_setup()

    def post_setup(self):
        pass

    def ref_ops(self, entry, doc):
        return []

    def _eval_ref(self, item):
        key, di, rop = item
        e = self.entries[key]
        return self.eval_ref(e, e.docs[di], rop)

    def eval_ref(self, entry, doc, rop):
        """Default: the eager, bytes, in-memory evaluation of an ops.call_api op."""
        env = ops.Env(os.path.join(self.scratch, f'ref-{os.getpid()}'))
        try:
            res, _ = ops.run_op(entry.schema, env, doc.data, rop)
        finally:
            env.cleanup()
        return res

    def ref(self, key, di, rop):
        return self.refs[(key, di, json.dumps(rop, sort_keys=True))]

    def new_env(self):
        return ops.Env(os.path.join(self.scratch, f'run-{os.getpid()}'))

    def extra_evidence(self):
        return {'pool_entries': len(self.entries),
                'pool_documents': sum(len(e.docs) for e in self.entries.values()),
                'reference_table_entries': len(self.refs),
                'pool_fault_documents_not_rejected_by_reference': [list(x) for x in self.not_rejected][:20],
                'pool_valid_documents_rejected_by_reference': [list(x) for x in __import__('pool.pool').pool.LAST_VALID_REJECTED][:20]}


def delivery_facts(data, src, core_):
    """(cuts inside the root element, cut classes, counters) of one delivered document."""
    counters = {}
    rs, re_ = simio.root_span(data)
    if core_ is not None:
        cuts = core_.cuts
        counters['reads'] = core_.reads
        counters['bytes_delivered'] = core_.delivered
        counters['rewinds'] = core_.rewinds
        for k, v in core_.fired.items():
            counters['fault_fired_' + k] = v
    elif src.get('ch') in ('path', 'fileurl', 'http', 'pathobj', 'bytes', 'bytesio', 'text', 'stringio', 'resource'):
        cuts = list(range(16384, len(data), 16384))
    else:
        cuts = []
    inside = [c for c in cuts if re_ <= c < len(data)]
    cclasses = simio.cut_classes(data, inside)
    if any(rs < c < re_ for c in cuts):
        counters['probe_cut_inside_root_start_tag'] = 1
    if 'in-tag' in cclasses:
        counters['probe_read_returned_inside_a_tag'] = 1
    return inside, cclasses, counters


def merge(counters, other):
    for k, v in other.items():
        counters[k] = counters.get(k, 0) + v


def short(res, n=1500):
    s = json.dumps(res, default=repr)
    return s if len(s) < n else s[:n] + '...'


def jcopy(obj):
    return json.loads(json.dumps(obj, default=repr))


def shrink_plan(case, src_key='src'):
    """Generic delivery-plan reductions."""
    src = case[src_key]
    plan = src.get('plan') or {}
    sizes = plan.get('sizes') or []
    if plan.get('rest') is not None:
        c = jcopy(case)
        c[src_key]['plan']['rest'] = None
        yield c
    if sizes:
        c = jcopy(case)
        c[src_key]['plan']['sizes'] = []
        yield c
    if len(sizes) > 1:
        c = jcopy(case)
        c[src_key]['plan']['sizes'] = sizes[:len(sizes) // 2]
        yield c
        for k in range(min(len(sizes) - 1, 40)):
            c = jcopy(case)
            s = c[src_key]['plan']['sizes']
            s[k:k + 2] = [s[k] + s[k + 1]]
            yield c
