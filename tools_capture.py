#!/venv/bin/python
"""
Capture a minimised canonical replay for a (known or seeded) finding.

  tools_capture.py <ID> '<json signature subset>' <out.json> [--runs N] [--seed S]

Runs the check's batch, takes the first violation whose signature contains the subset,
minimises it and writes the replay file. Used to produce /verif/known/*.json (committed).
"""
import importlib
import json
import os
import random
import sys

HERE = os.path.dirname(os.path.abspath(__file__))
if os.environ.get('PYTHONHASHSEED') != '0':
    os.environ['PYTHONHASHSEED'] = '0'
    if os.environ.get('VERIF_REPO'):
        os.environ['PYTHONPATH'] = os.environ['VERIF_REPO'] + os.pathsep + os.environ.get('PYTHONPATH', '')
    os.execv(sys.executable, [sys.executable] + sys.argv)
sys.path.insert(0, HERE)
os.chdir(HERE)
from sim import core   # noqa: E402


def main():
    args = sys.argv[1:]
    pid, subset, out = args[0], json.loads(args[1]), args[2]
    runs = int(args[args.index('--runs') + 1]) if '--runs' in args else None
    seed = int(args[args.index('--seed') + 1]) if '--seed' in args else 0
    tier = args[args.index('--tier') + 1] if '--tier' in args else 'quick'
    check = importlib.import_module(f'checks.{pid.lower()}').CHECK()
    check.setup(tier, seed)
    batch = core.Batch(check, tier, seed, runs=runs).run()
    for index, rseed, violation in batch.violations:
        if core.signature_matches(subset, violation['signature']):
            break
    else:
        print('no violation matches', subset, 'among', len(batch.violations))
        seen = {}
        for _, _, v in batch.violations:
            seen[json.dumps(v['signature'], sort_keys=True)] = 1
        for s in list(seen)[:40]:
            print('  ', s)
        return 1
    case = check.gen_case(random.Random(rseed), index)
    res = core.execute_case(check, case)
    if res.get('pin') is not None and core.same_violation(core.execute_case(check, res['pin']), violation['signature']):
        case = res['pin']
    if not core.same_violation(core.execute_case(check, case), violation['signature']):
        print('did not reproduce alone')
        return 1
    small = core.minimise(check, case, violation['signature'], time_box=90.0, log=print)
    v = core.same_violation(core.execute_case(check, small), violation['signature'])
    os.makedirs(os.path.dirname(os.path.join(HERE, out)) or '.', exist_ok=True)
    with open(os.path.join(HERE, out), 'w') as fp:
        json.dump({'property': pid, 'master_seed': seed, 'run_index': index, 'run_seed': rseed,
                   'minimised': small != case, 'expected_signature': v['signature'], 'detail': v.get('detail'),
                   'tree_fingerprint': core.tree_fingerprint(), 'case': small}, fp, indent=1, default=repr, sort_keys=True)
    print('wrote', out, json.dumps(v['signature'], sort_keys=True))
    return 0


if __name__ == '__main__':
    sys.exit(main())
