#!/venv/bin/python
"""
Seeded breaking changes (/verif/seeded/<id>/: patch.diff, demo.py, meta.json).

  tools_seeded.py verify <id>        patch applies to /repo HEAD in a scratch worktree, the repository suite still
                                     passes (BASELINE stable_pass), demo fails with the patch and passes without
  tools_seeded.py run <id> [tier]    run the property's check against the patched scratch worktree
                                     (VERIF_REPO), record caught/missed + signatures in meta.json
  tools_seeded.py index              write seeded/INDEX.md from the meta.json files
The scratch worktree lives under /dev/shm and is removed afterwards. /repo itself is never touched.
"""
import json
import os
import re
import shutil
import subprocess
import sys
import xml.etree.ElementTree as ET

HERE = os.path.dirname(os.path.abspath(__file__))
SEEDED = os.path.join(HERE, 'seeded')
PY = '/venv/bin/python'


def sh(cmd, **kw):
    return subprocess.run(cmd, shell=isinstance(cmd, str), capture_output=True, text=True, **kw)


class Worktree:
    def __init__(self, name):
        self.path = f'/dev/shm/seeded-wt-{name}-{os.getpid()}'

    def __enter__(self):
        sh(['git', '-C', '/repo', 'worktree', 'add', '--detach', '-q', self.path, 'HEAD'])
        return self.path

    def __exit__(self, *a):
        sh(['git', '-C', '/repo', 'worktree', 'remove', '--force', self.path])
        shutil.rmtree(self.path, ignore_errors=True)
        sh(['git', '-C', '/repo', 'worktree', 'prune'])


def suite_ok(wt):
    base = json.load(open('/root/.vp/BASELINE.json'))
    out = os.path.join('/dev/shm', f'junit-{os.getpid()}.xml')
    env = dict(os.environ, PYTHONPATH=wt)
    env.pop('XMLSCHEMA_VERIF', None)
    subprocess.run([PY, '-m', 'pytest', '-q', '-p', 'no:cacheprovider', '--timeout=900', '-n', '6',
                    '--continue-on-collection-errors', f'--junitxml={out}'], cwd=wt, env=env,
                   stdout=subprocess.DEVNULL, stderr=subprocess.DEVNULL)
    passed = set()
    for tc in ET.parse(out).getroot().iter('testcase'):
        if not any(c.tag in ('failure', 'error', 'skipped') for c in tc):
            passed.add(f"{tc.get('classname')}::{tc.get('name')}")
    os.unlink(out)
    missing = [t for t in base['stable_pass'] if t not in passed]
    if missing:
        # re-run the missing ones serially (xdist flakiness)
        still = []
        for t in missing[:10]:
            mod, name = t.split('::')
            p = mod.replace('.', '/')
            parts = p.rsplit('/', 1)
            r = subprocess.run([PY, '-m', 'pytest', '-q', '-p', 'no:cacheprovider', parts[0] + '.py', '-k', name],
                               cwd=wt, env=env, capture_output=True, text=True)
            if ' passed' not in r.stdout or ' failed' in r.stdout:
                still.append(t)
        missing = still + missing[10:]
    return missing


def verify(sid):
    d = os.path.join(SEEDED, sid)
    meta = json.load(open(os.path.join(d, 'meta.json')))
    with Worktree(sid) as wt:
        env = dict(os.environ, PYTHONPATH=wt)
        demo = os.path.join(d, 'demo.py')
        r0 = subprocess.run([PY, demo], env=env, capture_output=True, text=True, cwd=wt, timeout=600)
        a = sh(['git', '-C', wt, 'apply', os.path.join(d, 'patch.diff')])
        if a.returncode != 0:
            print('patch does not apply:', a.stderr[:300])
            return 1
        r1 = subprocess.run([PY, demo], env=env, capture_output=True, text=True, cwd=wt, timeout=600)
        missing = suite_ok(wt)
    ok = r0.returncode == 0 and r1.returncode != 0 and not missing
    meta['verified'] = {'demo_without_patch_rc': r0.returncode, 'demo_with_patch_rc': r1.returncode,
                        'suite_missing_stable_tests': missing[:5], 'ok': ok}
    json.dump(meta, open(os.path.join(d, 'meta.json'), 'w'), indent=1)
    print(sid, 'verified' if ok else 'NOT VERIFIED', meta['verified'])
    if r0.returncode != 0:
        print('  demo without patch output:', (r0.stdout + r0.stderr)[-400:])
    return 0 if ok else 1


def run(sid, tier='quick', props=None):
    d = os.path.join(SEEDED, sid)
    meta = json.load(open(os.path.join(d, 'meta.json')))
    props = props or [meta['property']]
    results = meta.setdefault('checks', {})
    with Worktree(sid) as wt:
        a = sh(['git', '-C', wt, 'apply', os.path.join(d, 'patch.diff')])
        if a.returncode != 0:
            print('patch does not apply:', a.stderr[:300])
            return 1
        for prop in props:
            env = dict(os.environ, VERIF_REPO=wt, VERIF_SURVEY='1', VERIF_SURVEY_LEN='300', VERIF_SKIP_SELFTEST='1')
            env.pop('VERIF_REEXEC', None)
            r = subprocess.run([os.path.join(HERE, 'check'), prop, '--tier', tier], env=env, capture_output=True,
                               text=True, cwd=HERE, timeout=7200)
            sigs = re.findall(r'^SURVEY n=(\d+) sig=(.*)$', r.stdout, re.M)
            harness = [line for line in r.stdout.splitlines() if 'HARNESS-ERROR' in line]
            results[f'{prop}:{tier}'] = {
                'caught': bool(sigs), 'exit': r.returncode, 'distinct_new_signatures': len(sigs),
                'signatures': [json.loads(s) for _, s in sigs[:4]], 'harness': harness[:2],
                'tail': r.stdout.splitlines()[-1][:200] if r.stdout else r.stderr[-200:]}
            print(sid, prop, tier, 'CAUGHT' if sigs else 'missed', f'{len(sigs)} new signatures',
                  (sigs[0][1][:160] if sigs else ''), harness[:1])
    json.dump(meta, open(os.path.join(d, 'meta.json'), 'w'), indent=1)
    return 0


def index():
    lines = ['# Seeded breaking changes and which checks catch them', '',
             'Each change was produced by a fresh sub-agent that saw only the property text and its own scratch',
             'worktree, then confirmed here (`tools_seeded.py verify`): the patch applies, the repository suite still',
             'passes, the demo fails with the patch and passes without. `tools_seeded.py run` applies the patch to a',
             'scratch worktree and runs the check against it (`VERIF_REPO`).', '',
             '| id | property | what it needs to manifest | verified | caught by (tier: new signatures) | first signature |',
             '|---|---|---|---|---|---|']
    def order(sid):
        a, _, b = sid.partition('-m')
        return (a, int(b)) if b.isdigit() else (a, 0)
    stats = {'total': 0, 'neutralised': 0, 'own_quick': 0, 'other_or_thorough': 0, 'missed': 0}
    for sid in sorted(os.listdir(SEEDED), key=order):
        mp = os.path.join(SEEDED, sid, 'meta.json')
        if not os.path.exists(mp):
            continue
        m = json.load(open(mp))
        caught = []
        first = ''
        for k, v in sorted(m.get('checks', {}).items()):
            caught.append(f"{k}: {'caught ' + str(v['distinct_new_signatures']) if v['caught'] else 'MISSED'}")
            if v['caught'] and not first:
                first = json.dumps(v['signatures'][0], sort_keys=True)[:140]
        stats['total'] += 1
        checks = m.get('checks', {})
        own = checks.get(f"{m['property']}:quick", {}).get('caught')
        if str(m.get('status', '')).startswith('neutralised'):
            stats['neutralised'] += 1
            caught.append('NEUTRALISED by a repair (see meta.json)')
        elif own:
            stats['own_quick'] += 1
        elif any(v.get('caught') for v in checks.values()):
            stats['other_or_thorough'] += 1
        else:
            stats['missed'] += 1
        needs = str(m.get('what_it_needs_to_manifest', ''))[:160].replace('|', '/').replace('\n', ' ')
        lines.append(f"| {sid} | {m['property']} | {needs} | {m.get('verified', {}).get('ok')} | "
                     f"{'; '.join(caught)} | `{first}` |")
    lines += ['', f"Totals: {stats['total']} changes; {stats['own_quick']} caught by the quick tier of their own property's check, "
                  f"{stats['other_or_thorough']} only by another property's check or by the thorough tier, {stats['missed']} by none "
                  f"(reasons in the notes below), {stats['neutralised']} neutralised by later repairs of the unchanged tree."]
    notes = os.path.join(SEEDED, 'NOTES.md')
    if os.path.exists(notes):
        lines += ['', open(notes).read()]
    open(os.path.join(SEEDED, 'INDEX.md'), 'w').write('\n'.join(lines) + '\n')
    print('\n'.join(lines[7:]))


if __name__ == '__main__':
    cmd = sys.argv[1]
    if cmd == 'verify':
        sys.exit(verify(sys.argv[2]))
    if cmd == 'run':
        tier = sys.argv[3] if len(sys.argv) > 3 else 'quick'
        sys.exit(run(sys.argv[2], tier, sys.argv[4:] or None))
    if cmd == 'index':
        index()
