"""The repository's own example corpus as additional (schema, instance) pairs (read-only)."""
import os
import warnings

from sim.core import REPO_DIR
from pool.families import Doc, Family
from pool.pool import Entry, schema_class

CASES_DIR = os.path.join(REPO_DIR, 'tests', 'test_cases')


class CorpusFamily(Family):
    def __init__(self, name):
        self.name = name
        self.paths = ()


def corpus_pairs():
    """[(xml path, version)] from the testfiles index."""
    out = []
    index = os.path.join(CASES_DIR, 'testfiles')
    if not os.path.exists(index):
        return out
    with open(index, encoding='utf-8') as fp:
        for line in fp:
            line = line.split('#')[0].strip()
            if not line:
                continue
            parts = line.split()
            if not parts[0].endswith('.xml'):
                continue
            if '--lxml' in line or '--defuse' in line:
                continue
            version = '1.1' if '--version=1.1' in line else '1.0'
            p = os.path.join(CASES_DIR, parts[0])
            if os.path.isfile(p) and os.path.getsize(p) < 40000:
                out.append((p, version))
    return out


def corpus_entries(versions=('1.0', '1.1'), limit=None):
    import xmlschema
    by_schema = {}
    for path, version in corpus_pairs():
        if version not in versions:
            continue
        try:
            url = xmlschema.fetch_schema(path)
        except Exception:
            continue
        by_schema.setdefault((url, version), []).append(path)
    entries = []
    for (url, version), paths in sorted(by_schema.items()):
        try:
            with warnings.catch_warnings():
                warnings.simplefilter('ignore')
                schema = schema_class(version)(url)
        except Exception:
            continue
        name = 'corpus:' + os.path.relpath(url.replace('file://', ''), CASES_DIR)
        docs = []
        for p in sorted(set(paths)):
            with open(p, 'rb') as fp:
                data = fp.read()
            try:
                valid = schema.is_valid(data)
            except Exception:
                continue
            docs.append(Doc(os.path.basename(p), data, 'valid' if valid else 'fault:corpus',
                            prefix_dep=True))
        if docs:
            e = Entry(CorpusFamily(name), version, schema, url, docs)
            # is_valid above used this schema object: rebuild so the template copy is pristine
            e.schema = schema_class(version)(url)
            entries.append(e)
        if limit and len(entries) >= limit:
            break
    return entries
