"""
Workload pool (DESIGN.md 2.6): parameterised schema families whose validation touches
streamed and shared state, each with a seeded instance generator producing valid
documents and single-fault variants. Documents are plain `bytes`.
"""
import random

XS = 'xmlns:xs="http://www.w3.org/2001/XMLSchema"'


class Doc:
    __slots__ = ('name', 'data', 'kind', 'prefix_dep', 'tag')

    def __init__(self, name, data, kind='valid', prefix_dep=False, tag=None):
        self.tag = tag              # names the listed finding a document exists to exhibit (goes into signatures)
        self.name = name
        self.data = data if isinstance(data, bytes) else data.encode('utf-8')
        self.kind = kind            # 'valid' | 'fault:<class>'
        self.prefix_dep = prefix_dep  # values depend on in-scope prefixes (QName content)

    def __repr__(self):
        return f"Doc({self.name}, {self.kind}, {len(self.data)}B)"


class Family:
    name = ''
    versions = ('1.0', '1.1')
    # {filename: text}; the first is the main schema document
    def sources(self, version):
        raise NotImplementedError

    def docs(self, rng):
        raise NotImplementedError

    paths = ()   # XPath paths usable with path= (relative to root) for partial ops

    def assemble(self, directory, cls, build=True, order=None):
        """Canonical assembly of the schema from the source files written in `directory`."""
        import os
        return cls(os.path.join(directory, next(iter(self.sources(cls.XSD_VERSION)))), build=build)


def _decl():
    return '<?xml version="1.0" encoding="UTF-8"?>\n'


# ---------------------------------------------------------------------------
class Ids(Family):
    name = 'ids'
    paths = ('item', 'item[2]', 'item[sub/@id]', 'item[last()]')

    def sources(self, version):
        return {'ids.xsd': f'''<xs:schema {XS} targetNamespace="urn:ids" xmlns="urn:ids"
  elementFormDefault="qualified">
 <xs:element name="root">
  <xs:complexType>
   <xs:sequence>
    <xs:element name="item" maxOccurs="unbounded">
     <xs:complexType>
      <xs:sequence>
       <xs:element name="sub" minOccurs="0" maxOccurs="unbounded">
        <xs:complexType>
         <xs:simpleContent>
          <xs:extension base="xs:string">
           <xs:attribute name="id" type="xs:ID"/>
           <xs:attribute name="ref" type="xs:IDREF"/>
           <xs:attribute name="refs" type="xs:IDREFS"/>
          </xs:extension>
         </xs:simpleContent>
        </xs:complexType>
       </xs:element>
      </xs:sequence>
      <xs:attribute name="id" type="xs:ID" use="required"/>
      <xs:attribute name="ref" type="xs:IDREF"/>
     </xs:complexType>
    </xs:element>
   </xs:sequence>
   <xs:attribute name="ref" type="xs:IDREF"/>
  </xs:complexType>
 </xs:element>
</xs:schema>'''}

    def _build(self, items, root_ref=None):
        out = [_decl(), '<root xmlns="urn:ids"' + (f' ref="{root_ref}"' if root_ref else '') + '>\n']
        for it in items:
            a = f' id="{it["id"]}"'
            if it.get('ref'):
                a += f' ref="{it["ref"]}"'
            out.append(f' <item{a}>')
            for s in it.get('subs', ()):
                sa = ''.join(f' {k}="{v}"' for k, v in s.items() if k != 'text')
                out.append(f'<sub{sa}>{s.get("text", "t")}</sub>')
            out.append('</item>\n')
        out.append('</root>\n')
        return ''.join(out)

    def _items(self, rng, n):
        items = []
        for k in range(n):
            it = {'id': f'i{k}'}
            if rng.random() < 0.5:
                it['ref'] = f'i{rng.randrange(n)}'       # forward or backward
            subs = []
            for j in range(rng.randrange(0, 3)):
                s = {'id': f's{k}_{j}', 'text': 'x' * rng.randrange(1, 9)}
                if rng.random() < 0.4:
                    s['ref'] = f'i{rng.randrange(n)}'
                if rng.random() < 0.3:
                    s['refs'] = ' '.join(f'i{rng.randrange(n)}' for _ in range(2))
                subs.append(s)
            it['subs'] = subs
            items.append(it)
        return items

    def docs(self, rng):
        out = []
        for n in (1, 3, 8, 20):
            items = self._items(rng, n)
            out.append(Doc(f'ids-valid-{n}', self._build(items)))
        n = 12
        items = self._items(rng, n)
        out.append(Doc('ids-rootref', self._build(items, root_ref=f'i{n - 1}')))
        # duplicate id far apart
        items = self._items(rng, n)
        items[-1]['id'] = 'i0'
        for it in items:
            if it.get('ref') == f'i{n - 1}':
                it['ref'] = 'i1'
            for s in it['subs']:
                if s.get('ref') == f'i{n - 1}':
                    s['ref'] = 'i1'
                if 'refs' in s:
                    s['refs'] = s['refs'].replace(f'i{n - 1}', 'i1')
        out.append(Doc('ids-dup-far', self._build(items), 'fault:dup-id'))
        # duplicate sub id inside one item and across items
        items = self._items(rng, 6)
        items[2]['subs'] = [{'id': 'sdup', 'text': 'a'}, {'id': 'sdup', 'text': 'b'}]
        out.append(Doc('ids-dup-near', self._build(items), 'fault:dup-id'))
        # dangling references (first item, last item, root)
        items = self._items(rng, 9)
        items[0]['ref'] = 'nowhere'
        out.append(Doc('ids-dangling-first', self._build(items), 'fault:dangling'))
        items = self._items(rng, 9)
        items[-1]['subs'] = [{'id': 'z', 'refs': 'i0 nope i1', 'text': 'q'}]
        out.append(Doc('ids-dangling-last', self._build(items), 'fault:dangling'))
        items = self._items(rng, 5)
        out.append(Doc('ids-dangling-root', self._build(items, root_ref='ghost'), 'fault:dangling'))
        # bad lexical
        items = self._items(rng, 4)
        items[1]['id'] = '1bad'
        out.append(Doc('ids-badname', self._build(items), 'fault:lexical'))
        # misplaced child
        txt = self._build(self._items(rng, 4)).replace('</root>', ' <extra/>\n</root>')
        out.append(Doc('ids-extra-child', txt, 'fault:structure'))
        return out


# ---------------------------------------------------------------------------
class Keys(Family):
    name = 'keys'
    paths = ('section', 'section/item')

    def sources(self, version):
        return {'keys.xsd': f'''<xs:schema {XS} targetNamespace="urn:keys" xmlns:k="urn:keys"
  elementFormDefault="qualified">
 <xs:element name="root">
  <xs:complexType>
   <xs:sequence>
    <xs:element name="section" maxOccurs="unbounded">
     <xs:complexType>
      <xs:sequence>
       <xs:element name="item" minOccurs="0" maxOccurs="unbounded">
        <xs:complexType>
         <xs:sequence>
          <xs:element name="name" type="xs:string" minOccurs="0"/>
          <xs:element name="part" minOccurs="0" maxOccurs="unbounded">
           <xs:complexType>
            <xs:attribute name="a" type="xs:decimal" use="required"/>
            <xs:attribute name="b" type="xs:boolean"/>
           </xs:complexType>
          </xs:element>
         </xs:sequence>
         <xs:attribute name="k" type="xs:int" use="required"/>
         <xs:attribute name="g" type="xs:string"/>
         <xs:attribute name="tags"><xs:simpleType><xs:list itemType="xs:short"/></xs:simpleType></xs:attribute>
        </xs:complexType>
        <xs:unique name="partU">
         <xs:selector xpath="k:part"/>
         <xs:field xpath="@a"/>
         <xs:field xpath="@b"/>
        </xs:unique>
       </xs:element>
       <xs:element name="ref" minOccurs="0" maxOccurs="unbounded">
        <xs:complexType>
         <xs:attribute name="to" type="xs:int" use="required"/>
        </xs:complexType>
       </xs:element>
      </xs:sequence>
      <xs:attribute name="sid" type="xs:string" use="required"/>
     </xs:complexType>
     <xs:key name="itemInSection">
      <xs:selector xpath="k:item"/>
      <xs:field xpath="@k"/>
     </xs:key>
     <xs:unique name="tagsU">
      <xs:selector xpath="k:item"/>
      <xs:field xpath="@tags"/>
     </xs:unique>
     <xs:keyref name="refInSection" refer="k:itemInSection">
      <xs:selector xpath="k:ref"/>
      <xs:field xpath="@to"/>
     </xs:keyref>
    </xs:element>
    <xs:element name="gref" minOccurs="0" maxOccurs="unbounded">
     <xs:complexType>
      <xs:attribute name="g" type="xs:string" use="required"/>
     </xs:complexType>
    </xs:element>
    <xs:element name="dref" minOccurs="0" maxOccurs="unbounded">
     <xs:complexType>
      <xs:attribute name="to" type="xs:int" use="required"/>
     </xs:complexType>
    </xs:element>
   </xs:sequence>
  </xs:complexType>
  <xs:key name="sectionKey">
   <xs:selector xpath="k:section"/>
   <xs:field xpath="@sid"/>
  </xs:key>
  <xs:unique name="globalG">
   <xs:selector xpath=".//k:item"/>
   <xs:field xpath="@g"/>
  </xs:unique>
  <xs:unique name="nameU">
   <xs:selector xpath="k:section/k:item"/>
   <xs:field xpath="k:name"/>
  </xs:unique>
  <xs:keyref name="deepRef" refer="k:itemInSection">
   <xs:selector xpath="k:dref"/>
   <xs:field xpath="@to"/>
  </xs:keyref>
  <xs:keyref name="grefK" refer="k:globalG">
   <xs:selector xpath="k:gref"/>
   <xs:field xpath="@g"/>
  </xs:keyref>
 </xs:element>
</xs:schema>'''}

    def _build(self, sections, grefs=(), drefs=()):
        out = [_decl(), '<k:root xmlns:k="urn:keys">\n']
        for s in sections:
            out.append(f' <k:section sid="{s["sid"]}">\n')
            for it in s['items']:
                a = f' k="{it["k"]}"' + (f' g="{it["g"]}"' if 'g' in it else '') + \
                    (f' tags="{it["tags"]}"' if 'tags' in it else '')
                out.append(f'  <k:item{a}>')
                if 'name' in it:
                    out.append(f'<k:name>{it["name"]}</k:name>')
                for p in it.get('parts', ()):
                    out.append('<k:part' + ''.join(f' {k}="{v}"' for k, v in p.items()) + '/>')
                out.append('</k:item>\n')
            for r in s.get('refs', ()):
                out.append(f'  <k:ref to="{r}"/>\n')
            out.append(' </k:section>\n')
        for g in grefs:
            out.append(f' <k:gref g="{g}"/>\n')
        for t in drefs:
            out.append(f' <k:dref to="{t}"/>\n')
        out.append('</k:root>\n')
        return ''.join(out)

    def _sections(self, rng, ns, ni):
        secs = []
        g = 0
        for s in range(ns):
            items = []
            for k in range(ni):
                it = {'k': k + 1}
                if rng.random() < 0.7:
                    it['g'] = f'g{g}'
                    g += 1
                if rng.random() < 0.6:
                    it['name'] = f'n{s}_{k}'
                it['parts'] = [{'a': f'{j}.{rng.randrange(10)}', 'b': rng.choice(['true', 'false'])}
                               for j in range(rng.randrange(0, 3))]
                items.append(it)
            refs = [rng.randrange(1, ni + 1) for _ in range(rng.randrange(0, 3))] if ni else []
            secs.append({'sid': f'S{s}', 'items': items, 'refs': refs})
        return secs, g

    def docs(self, rng):
        out = []
        for ns, ni in ((1, 2), (2, 4), (4, 6), (3, 15)):
            secs, g = self._sections(rng, ns, ni)
            grefs = [f'g{rng.randrange(g)}' for _ in range(2)] if g else []
            out.append(Doc(f'keys-valid-{ns}x{ni}', self._build(secs, grefs)))
        # duplicate key inside a section, far apart (first/last item)
        secs, g = self._sections(rng, 3, 10)
        secs[1]['items'][-1]['k'] = 1
        out.append(Doc('keys-dup-section-far', self._build(secs), 'fault:dup-key'))
        # duplicate in value space only: "07" vs "7"
        secs, g = self._sections(rng, 2, 8)
        secs[0]['items'][-1]['k'] = '07'
        out.append(Doc('keys-dup-valuespace', self._build(secs), 'fault:dup-key'))
        # duplicate under the descendant selector across sections
        secs, g = self._sections(rng, 4, 5)
        secs[0]['items'][0]['g'] = 'same'
        secs[-1]['items'][-1]['g'] = 'same'
        out.append(Doc('keys-dup-global-far', self._build(secs), 'fault:dup-unique'))
        # duplicate child-element field
        secs, g = self._sections(rng, 3, 4)
        secs[0]['items'][1]['name'] = 'dupname'
        secs[2]['items'][3]['name'] = 'dupname'
        out.append(Doc('keys-dup-name', self._build(secs), 'fault:dup-unique'))
        # duplicate two-field unique (decimal value space 1.0 == 1.00)
        secs, g = self._sections(rng, 2, 3)
        secs[1]['items'][2]['parts'] = [{'a': '1.0', 'b': 'true'}, {'a': '2', 'b': 'true'},
                                        {'a': '1.00', 'b': '1'}]
        out.append(Doc('keys-dup-parts', self._build(secs), 'fault:dup-unique'))
        # dangling keyrefs
        secs, g = self._sections(rng, 2, 5)
        secs[0]['refs'] = [99]
        out.append(Doc('keys-dangling-ref', self._build(secs), 'fault:keyref'))
        secs, g = self._sections(rng, 3, 4)
        out.append(Doc('keys-dangling-gref', self._build(secs, ['nope']), 'fault:keyref'))
        # duplicate section key
        secs, g = self._sections(rng, 4, 2)
        secs[3]['sid'] = 'S0'
        out.append(Doc('keys-dup-sid', self._build(secs), 'fault:dup-key'))
        # bad typed value
        secs, g = self._sections(rng, 2, 3)
        secs[1]['items'][1]['k'] = 'x1'
        out.append(Doc('keys-badint', self._build(secs), 'fault:lexical'))
        # keyref on the root referring to the key of a descendant element (single section: no conflicts)
        secs, g = self._sections(rng, 1, 4)
        out.append(Doc('keys-deepref-valid', self._build(secs, drefs=[2, 4])))
        secs, g = self._sections(rng, 1, 3)
        out.append(Doc('keys-deepref-dangling', self._build(secs, drefs=[1, 77]), 'fault:keyref'))
        # list-typed identity field: valid, duplicated in value space, and with a lexically bad item
        secs, g = self._sections(rng, 2, 3)
        secs[0]['items'][0]['tags'] = '1 2 3'
        secs[0]['items'][2]['tags'] = '3 2 1'
        out.append(Doc('keys-tags-valid', self._build(secs)))
        secs, g = self._sections(rng, 2, 3)
        secs[1]['items'][0]['tags'] = '1 02'
        secs[1]['items'][1]['tags'] = '01 2'
        out.append(Doc('keys-tags-dup', self._build(secs), 'fault:dup-unique'))
        secs, g = self._sections(rng, 2, 3)
        secs[0]['items'][1]['tags'] = '1 x 3'
        secs[0]['items'][2]['tags'] = '4 5'
        out.append(Doc('keys-tags-baditem', self._build(secs), 'fault:lexical'))
        return out


# ---------------------------------------------------------------------------
class XsiType(Family):
    """Two/three global roots sharing <x> by ref; derived types add selected children."""
    name = 'xsitype'
    paths = ('x',)

    def sources(self, version):
        return {'xsitype.xsd': f'''<xs:schema {XS} targetNamespace="urn:xt" xmlns:t="urn:xt"
  elementFormDefault="qualified">
 <xs:complexType name="Base">
  <xs:sequence>
   <xs:element name="a" type="xs:string" minOccurs="0"/>
  </xs:sequence>
  <xs:attribute name="n" type="xs:string"/>
 </xs:complexType>
 <xs:complexType name="D">
  <xs:complexContent>
   <xs:extension base="t:Base">
    <xs:sequence>
     <xs:element name="y" minOccurs="0" maxOccurs="unbounded">
      <xs:complexType><xs:attribute name="v" type="xs:int" use="required"/></xs:complexType>
     </xs:element>
    </xs:sequence>
   </xs:extension>
  </xs:complexContent>
 </xs:complexType>
 <xs:complexType name="E">
  <xs:complexContent>
   <xs:extension base="t:D">
    <xs:sequence>
     <xs:element name="z" minOccurs="0" maxOccurs="unbounded">
      <xs:complexType><xs:attribute name="v" type="xs:int" use="required"/></xs:complexType>
     </xs:element>
    </xs:sequence>
   </xs:extension>
  </xs:complexContent>
 </xs:complexType>
 <xs:complexType name="Abs" abstract="true">
  <xs:complexContent><xs:extension base="t:Base"/></xs:complexContent>
 </xs:complexType>
 <xs:complexType name="R">
  <xs:complexContent>
   <xs:restriction base="t:Base">
    <xs:sequence/>
   </xs:restriction>
  </xs:complexContent>
 </xs:complexType>
 <xs:complexType name="Q">
  <xs:complexContent><xs:extension base="t:Base">
   <xs:attribute name="req" type="xs:int" use="required"/>
  </xs:extension></xs:complexContent>
 </xs:complexType>
 <xs:complexType name="Other">
  <xs:sequence><xs:element name="o" type="xs:string" minOccurs="0"/></xs:sequence>
 </xs:complexType>
 <xs:element name="x" type="t:Base"/>
 <xs:element name="root4">
  <xs:complexType><xs:sequence>
    <xs:element name="grp" maxOccurs="unbounded">
     <xs:complexType><xs:sequence><xs:element ref="t:x" maxOccurs="unbounded"/>
       <xs:element name="lx" type="t:Base" minOccurs="0" maxOccurs="unbounded"/></xs:sequence></xs:complexType>
     <xs:unique name="u4"><xs:selector xpath=".//t:y"/><xs:field xpath="@v"/></xs:unique>
     <xs:unique name="u4n"><xs:selector xpath="t:x"/><xs:field xpath="@n"/></xs:unique>
     <xs:key name="k4l"><xs:selector xpath="t:lx"/><xs:field xpath="@n"/></xs:key>
    </xs:element>
    <xs:element name="misc" minOccurs="0">
     <xs:complexType><xs:sequence><xs:element ref="t:x" maxOccurs="unbounded"/></xs:sequence></xs:complexType>
    </xs:element>
  </xs:sequence></xs:complexType>
 </xs:element>
 <xs:element name="root1">
  <xs:complexType><xs:sequence><xs:element ref="t:x" maxOccurs="unbounded"/></xs:sequence></xs:complexType>
  <xs:unique name="u1"><xs:selector xpath=".//t:y"/><xs:field xpath="@v"/></xs:unique>
 </xs:element>
 <xs:element name="root2">
  <xs:complexType><xs:sequence><xs:element ref="t:x" maxOccurs="unbounded"/></xs:sequence></xs:complexType>
  <xs:unique name="u2"><xs:selector xpath=".//t:y"/><xs:field xpath="@v"/></xs:unique>
  <xs:unique name="u2z"><xs:selector xpath=".//t:z"/><xs:field xpath="@v"/></xs:unique>
 </xs:element>
 <xs:element name="root6" type="t:Base"/>
 <xs:element name="root5">
  <xs:complexType><xs:sequence><xs:element ref="t:x" maxOccurs="unbounded"/></xs:sequence></xs:complexType>
  <xs:unique name="u5"><xs:selector xpath=".//t:y|.//t:z"/><xs:field xpath="@v"/></xs:unique>
  <xs:unique name="u5n"><xs:selector xpath="t:x"/><xs:field xpath="@n"/></xs:unique>
  <xs:unique name="u5a"><xs:selector xpath="t:x"/><xs:field xpath="t:a"/></xs:unique>
  <xs:unique name="u5an"><xs:selector xpath="t:x"/><xs:field xpath="t:a"/><xs:field xpath="@n"/></xs:unique>
 </xs:element>
 <xs:element name="root3">
  <xs:complexType><xs:sequence>
    <xs:element name="w" type="t:Base" block="restriction" maxOccurs="unbounded"/>
  </xs:sequence></xs:complexType>
  <xs:key name="k3"><xs:selector xpath=".//t:y"/><xs:field xpath="@v"/></xs:key>
 </xs:element>
 <xs:simpleType name="integer"><xs:restriction base="xs:decimal"><xs:maxInclusive value="10"/></xs:restriction></xs:simpleType>
 <xs:element name="root7">
  <xs:complexType><xs:sequence><xs:element name="num" type="xs:decimal" maxOccurs="unbounded"/></xs:sequence></xs:complexType>
 </xs:element>
 <xs:complexType name="Num"><xs:complexContent><xs:extension base="t:Base"><xs:attribute name="code" type="xs:int"/>
  </xs:extension></xs:complexContent></xs:complexType>
 <xs:complexType name="Lab"><xs:complexContent><xs:extension base="t:Base"><xs:attribute name="code" type="xs:string"/>
  </xs:extension></xs:complexContent></xs:complexType>
 <xs:element name="root8">
  <xs:complexType><xs:sequence><xs:element ref="t:x" maxOccurs="unbounded"/></xs:sequence></xs:complexType>
  <xs:unique name="u8"><xs:selector xpath="t:x"/><xs:field xpath="@code"/></xs:unique>
 </xs:element>
</xs:schema>'''}

    def _doc(self, root, xs, child='x'):
        out = [_decl(), f'<t:{root} xmlns:t="urn:xt" xmlns:xsi="http://www.w3.org/2001/XMLSchema-instance">\n']
        for x in xs:
            ty = f' xsi:type="{x["type"]}"' if x.get('type') else ''
            if x.get('n'):
                ty += f' n="{x["n"]}"'
            out.append(f' <t:{child}{ty}>')
            if x.get('a'):
                out.append('<t:a>q</t:a>')
            for v in x.get('y', ()):
                out.append(f'<t:y v="{v}"/>')
            for v in x.get('z', ()):
                out.append(f'<t:z v="{v}"/>')
            out.append(f'</t:{child}>\n')
        out.append(f'</t:{root}>\n')
        return ''.join(out)

    def _x(self, x):
        ty = f' xsi:type="{x["type"]}"' if x.get('type') else ''
        if x.get('n'):
            ty += f' n="{x["n"]}"'
        if x.get('req'):
            ty += f' req="{x["req"]}"'
        s = f'<t:x{ty}>' + ('<t:a>q</t:a>' if x.get('a') else '')
        s += ''.join(f'<t:y v="{v}"/>' for v in x.get('y', ())) + ''.join(f'<t:z v="{v}"/>' for v in x.get('z', ()))
        return s + '</t:x>'

    def _grpdoc(self, groups, misc, locals_=()):
        out = [_decl(), '<t:root4 xmlns:t="urn:xt" xmlns:xsi="http://www.w3.org/2001/XMLSchema-instance">\n']
        for k, g in enumerate(groups):
            lx = ''.join(self._x(x).replace('<t:x', '<t:lx').replace('</t:x>', '</t:lx>')
                         for x in (locals_[k] if k < len(locals_) else ()))
            out.append(' <t:grp>' + ''.join(self._x(x) for x in g) + lx + '</t:grp>\n')
        if misc:
            out.append(' <t:misc>' + ''.join(self._x(x) for x in misc) + '</t:misc>\n')
        out.append('</t:root4>\n')
        return ''.join(out)

    def docs(self, rng):
        D = self._doc
        out = [
            Doc('xt-r1-plain', D('root1', [{'a': 1}, {}])),
            Doc('xt-r1-D', D('root1', [{'type': 't:D', 'y': [1, 2]}, {'type': 't:D', 'y': [3]}])),
            Doc('xt-r1-D-dup', D('root1', [{'type': 't:D', 'y': [1, 2]}, {'type': 't:D', 'y': [2]}]),
                'fault:dup-unique'),
            Doc('xt-r2-D', D('root2', [{'type': 't:D', 'y': [5]}, {'a': 1}])),
            Doc('xt-r2-D-dup', D('root2', [{'type': 't:D', 'y': [7, 8]}, {'type': 't:D', 'y': [9, 7]}]),
                'fault:dup-unique'),
            Doc('xt-r2-E', D('root2', [{'type': 't:E', 'y': [1], 'z': [1, 2]}])),
            Doc('xt-r2-E-dupz', D('root2', [{'type': 't:E', 'y': [1], 'z': [4]},
                                           {'type': 't:E', 'z': [4]}]), 'fault:dup-unique'),
            Doc('xt-r2-E-dupy', D('root2', [{'type': 't:E', 'y': [1, 1]}]), 'fault:dup-unique'),
            Doc('xt-r3-D', D('root3', [{'type': 't:D', 'y': [1, 2]}], 'w')),
            Doc('xt-r3-D-dup', D('root3', [{'type': 't:D', 'y': [1]}, {'type': 't:D', 'y': [1]}], 'w'),
                'fault:dup-key'),
            Doc('xt-r3-blocked', D('root3', [{'type': 't:R'}], 'w'), 'fault:blocked'),
            Doc('xt-r1-abstract', D('root1', [{'type': 't:Abs'}]), 'fault:abstract'),
            Doc('xt-r1-unknown', D('root1', [{'type': 't:Nope'}]), 'fault:unknown-type'),
            Doc('xt-r1-y-without-type', D('root1', [{'y': [1]}]), 'fault:structure'),
            Doc('xt-r1-notderived', D('root1', [{'type': 't:Other'}]), 'fault:not-derived'),
            Doc('xt-r2-notderived', D('root2', [{'a': 1}, {'type': 't:Other'}]), 'fault:not-derived'),
        ]
        # one identity whose selector meets TWO new elements through a single xsi:type (E adds y and z to Base)
        out += [
            Doc('xt-r5-E', D('root5', [{'type': 't:E', 'y': [1, 2], 'z': [3]}, {'a': 1}])),
            Doc('xt-r5-E-dupy', D('root5', [{'type': 't:E', 'y': [5], 'z': [6]}, {'type': 't:E', 'y': [5]}]), 'fault:dup-unique'),
            Doc('xt-r5-E-dupz', D('root5', [{'type': 't:E', 'z': [6, 6]}]), 'fault:dup-unique'),
            Doc('xt-r5-E-dupyz', D('root5', [{'type': 't:E', 'y': [4], 'z': [4]}]), 'fault:dup-unique'),
            Doc('xt-r5-D-dupy', D('root5', [{'type': 't:D', 'y': [8, 8]}]), 'fault:dup-unique'),
            # <x> is selected by three constraints with different fields
            Doc('xt-r5-x-ok', D('root5', [{'type': 't:D', 'n': 'k', 'a': 1, 'y': [1]}, {'type': 't:D', 'n': 'm', 'y': [2]},
                                         {'n': 'p'}])),
            Doc('xt-r5-x-dupn', D('root5', [{'type': 't:D', 'n': 'k', 'a': 1}, {'type': 't:E', 'n': 'k'}]), 'fault:dup-unique'),
            Doc('xt-r5-x-dupa', D('root5', [{'type': 't:D', 'n': 'k', 'a': 1}, {'n': 'm', 'a': 1}]), 'fault:dup-unique'),
            Doc('xt-r5-x-dupall', D('root5', [{'type': 't:D', 'n': 'k', 'a': 1}, {'type': 't:D', 'n': 'k', 'a': 1}]),
                'fault:dup-unique'),
        ]
        # xsi:type on the ROOT element: the children added by the extension belong to the root's own content
        xsi = 'xmlns:t="urn:xt" xmlns:xsi="http://www.w3.org/2001/XMLSchema-instance"'
        out += [
            Doc('xt-r6-plain', _decl() + f'<t:root6 {xsi} n="k"><t:a>q</t:a></t:root6>\n'),
            Doc('xt-r6-D', _decl() + f'<t:root6 {xsi} xsi:type="t:D"><t:a>q</t:a><t:y v="1"/><t:y v="2"/></t:root6>\n',
                tag='xsi-type-on-root'),
            Doc('xt-r6-D-bad', _decl() + f'<t:root6 {xsi} xsi:type="t:D"><t:y v="one"/></t:root6>\n', 'fault:lexical',
                tag='xsi-type-on-root'),
            Doc('xt-r6-E-badz', _decl() + f'<t:root6 {xsi} xsi:type="t:E"><t:y v="1"/><t:z/></t:root6>\n', 'fault:structure',
                tag='xsi-type-on-root'),
        ]
        G = self._grpdoc
        out += [
            Doc('xt-r4-plain', G([[{'a': 1, 'n': 'p'}]], [])),
            Doc('xt-r4-misc-D', G([[{'a': 1}]], [{'type': 't:D', 'y': [1, 2]}])),          # type met out of scope
            Doc('xt-r4-misc-D-dupout', G([[{}]], [{'type': 't:D', 'y': [3, 3]}])),         # dup outside the scope: valid
            Doc('xt-r4-grp-D', G([[{'type': 't:D', 'y': [1, 2]}], [{'type': 't:D', 'y': [1]}]], [])),
            Doc('xt-r4-grp-D-dup', G([[{'type': 't:D', 'y': [7, 7]}]], []), 'fault:dup-unique'),
            Doc('xt-r4-grp-E-dup', G([[{'a': 1}], [{'type': 't:E', 'y': [4], 'z': [1]}, {'type': 't:E', 'y': [4]}]], []),
                'fault:dup-unique'),
            Doc('xt-r4-n-dup-typed', G([[{'type': 't:D', 'n': 'k', 'y': [1]}, {'type': 't:D', 'n': 'k'}]], []),
                'fault:dup-unique'),
            Doc('xt-r4-n-dup-plain', G([[{'n': 'k'}, {'n': 'k'}]], []), 'fault:dup-unique'),
            Doc('xt-r4-n-ok-typed', G([[{'type': 't:D', 'n': 'a', 'y': [1]}, {'n': 'b'}]], [{'n': 'a'}])),
            # Q adds a REQUIRED attribute: a declaration left retyped to Q is observable on plain documents
            Doc('xt-r4-Q-valid', G([[{'type': 't:Q', 'n': 'a', 'req': 1}, {'n': 'b'}]], [])),
            Doc('xt-r4-n-dup-Q', G([[{'type': 't:Q', 'n': 'k', 'req': 1}, {'type': 't:Q', 'n': 'k', 'req': 2}]], []),
                'fault:dup-unique'),
            Doc('xt-r4-Q-missing-req', G([[{'type': 't:Q', 'n': 'a'}]], []), 'fault:structure'),
            # the keyed element is a LOCAL declaration carrying xsi:type
            Doc('xt-r4-lx-plain', G([[{'a': 1}]], [], [[{'n': 'a'}, {'n': 'b'}]])),
            Doc('xt-r4-lx-Q-valid', G([[{}]], [], [[{'type': 't:Q', 'n': 'a', 'req': 1}, {'n': 'b'}]])),
            Doc('xt-r4-lx-dup-Q', G([[{}]], [], [[{'type': 't:Q', 'n': 'k', 'req': 1}, {'type': 't:Q', 'n': 'k', 'req': 2}]]),
                'fault:dup-key'),
            Doc('xt-r4-lx-dup-plain', G([[{}]], [], [[{'n': 'k'}, {'n': 'k'}]]), 'fault:dup-key'),
            Doc('xt-r4-lx-nokey', G([[{}]], [], [[{'a': 1}]]), 'fault:key-missing'),
        ]
        # larger randomised ones
        for k in range(3):
            n = rng.randrange(4, 12)
            vals = list(range(100))
            rng.shuffle(vals)
            xs = []
            for _ in range(n):
                t = rng.choice([None, 't:D', 't:D', 't:E'])
                x = {'type': t} if t else {'a': 1}
                if t:
                    x['y'] = [vals.pop() for _ in range(rng.randrange(0, 3))]
                if t == 't:E':
                    x['z'] = [vals.pop() for _ in range(rng.randrange(0, 3))]
                xs.append(x)
            root = rng.choice(['root1', 'root2'])
            out.append(Doc(f'xt-rand-{k}', D(root, xs)))
        # one lexical xsi:type value, two namespaces behind its prefix (a local type named like a builtin)
        r7 = '<t:root7 xmlns:t="urn:xt" xmlns:xsi="http://www.w3.org/2001/XMLSchema-instance"'
        XSD_NS = 'http://www.w3.org/2001/XMLSchema'
        out += [
            Doc('xt-r7-p-local', _decl() + f'{r7} xmlns:p="urn:xt"><t:num xsi:type="p:integer">1.5</t:num><t:num>77</t:num></t:root7>\n'),
            Doc('xt-r7-p-builtin', _decl() + f'{r7} xmlns:p="{XSD_NS}"><t:num xsi:type="p:integer">12</t:num><t:num>7.5</t:num></t:root7>\n'),
            Doc('xt-r7-p-builtin-bad', _decl() + f'{r7} xmlns:p="{XSD_NS}"><t:num xsi:type="p:integer">1.5</t:num></t:root7>\n',
                'fault:lexical'),
            Doc('xt-r7-p-local-bad', _decl() + f'{r7} xmlns:p="urn:xt"><t:num xsi:type="p:integer">12</t:num></t:root7>\n',
                'fault:lexical'),
            Doc('xt-r7-p-rebound', _decl() + f'{r7}><t:num xmlns:p="urn:xt" xsi:type="p:integer">1.5</t:num>'
                f'<t:num xmlns:p="{XSD_NS}" xsi:type="p:integer">12</t:num><t:num xmlns:p="urn:xt" xsi:type="p:integer">2.5</t:num>'
                '</t:root7>\n'),
        ]
        # one identity field typed differently by two derived types: '1' and '01' are one value as integers, two as strings
        r8 = '<t:root8 xmlns:t="urn:xt" xmlns:xsi="http://www.w3.org/2001/XMLSchema-instance">'
        out += [
            Doc('xt-r8-num-dup', _decl() + f'{r8}<t:x xsi:type="t:Num" code="1"/><t:x xsi:type="t:Num" code="01"/></t:root8>\n',
                'fault:dup-unique'),
            Doc('xt-r8-lab-ok', _decl() + f'{r8}<t:x xsi:type="t:Lab" code="1"/><t:x xsi:type="t:Lab" code="01"/>'
                '<t:x xsi:type="t:Lab" code="001"/></t:root8>\n'),
            Doc('xt-r8-num-ok', _decl() + f'{r8}<t:x xsi:type="t:Num" code="1"/><t:x xsi:type="t:Num" code="2"/>'
                '<t:x xsi:type="t:Num" code="03"/></t:root8>\n'),
            Doc('xt-r8-mixed', _decl() + f'{r8}<t:x xsi:type="t:Num" code="1"/><t:x xsi:type="t:Lab" code="01"/>'
                '<t:x xsi:type="t:Num" code="2"/><t:x xsi:type="t:Lab" code="02"/></t:root8>\n'),
        ]
        for d in out:
            d.prefix_dep = True   # xsi:type values are QNames
        return out


# ---------------------------------------------------------------------------
class Subst(Family):
    name = 'subst'
    paths = ('*',)

    def sources(self, version):
        return {'subst.xsd': f'''<xs:schema {XS} targetNamespace="urn:sg" xmlns:s="urn:sg"
  elementFormDefault="qualified">
 <xs:element name="head" type="s:HT"/>
 <xs:element name="m1" type="s:M1" substitutionGroup="s:head"/>
 <xs:element name="m2" type="s:M2" substitutionGroup="s:m1"/>
 <xs:element name="ab" type="s:HT" abstract="true" substitutionGroup="s:head"/>
 <xs:element name="blocked" type="s:HT" block="substitution"/>
 <xs:element name="noext" type="s:HT" block="extension"/>
 <xs:element name="ne1" type="s:M1" substitutionGroup="s:noext"/>
 <xs:element name="ne0" type="s:HT" substitutionGroup="s:noext"/>
 <xs:element name="bm" type="s:HT" substitutionGroup="s:blocked"/>
 <xs:complexType name="HT"><xs:sequence><xs:element name="v" type="xs:int" minOccurs="0"/></xs:sequence></xs:complexType>
 <xs:complexType name="M1"><xs:complexContent><xs:extension base="s:HT">
   <xs:attribute name="m" type="xs:boolean"/></xs:extension></xs:complexContent></xs:complexType>
 <xs:complexType name="M2"><xs:complexContent><xs:extension base="s:M1">
   <xs:attribute name="mm" type="xs:date"/></xs:extension></xs:complexContent></xs:complexType>
 <xs:element name="root">
  <xs:complexType><xs:sequence>
    <xs:element ref="s:head" minOccurs="0" maxOccurs="unbounded"/>
    <xs:element ref="s:blocked" minOccurs="0" maxOccurs="2"/>
    <xs:element ref="s:noext" minOccurs="0" maxOccurs="unbounded"/>
  </xs:sequence></xs:complexType>
 </xs:element>
 <xs:element name="m3" type="s:HT" substitutionGroup="s:head"/>
 <xs:element name="m4" type="s:HT" substitutionGroup="s:head"/>
 <xs:element name="m5" type="s:HT" substitutionGroup="s:head"/>
 <xs:element name="need">
  <xs:complexType><xs:sequence><xs:sequence><xs:element ref="s:head"/><xs:element name="tail" type="xs:string"/></xs:sequence>
   </xs:sequence></xs:complexType>
 </xs:element>
</xs:schema>'''}

    def _doc(self, kids):
        return _decl() + '<s:root xmlns:s="urn:sg">\n' + ''.join(f' {k}\n' for k in kids) + '</s:root>\n'

    def docs(self, rng):
        pool = ['<s:head><s:v>1</s:v></s:head>', '<s:head/>', '<s:m1 m="true"><s:v>2</s:v></s:m1>',
                '<s:m2 m="0" mm="2020-02-29"/>', '<s:m1/>']
        out = []
        for n in (1, 4, 12):
            out.append(Doc(f'sg-valid-{n}', self._doc([rng.choice(pool) for _ in range(n)])))
        out.append(Doc('sg-valid-blocked-head', self._doc([pool[0], '<s:blocked/>'])))
        out.append(Doc('sg-abstract', self._doc([pool[0], '<s:ab/>']), 'fault:abstract'))
        out.append(Doc('sg-blocked-member', self._doc([pool[2], '<s:bm/>']), 'fault:blocked'))
        out.append(Doc('sg-bad-date', self._doc(['<s:m2 mm="2021-02-29"/>']), 'fault:lexical'))
        out.append(Doc('sg-bad-int', self._doc([pool[1], '<s:m1><s:v>one</s:v></s:m1>', pool[3]]),
                       'fault:lexical'))
        out.append(Doc('sg-unknown', self._doc([pool[0], '<s:zzz/>']), 'fault:structure'))
        # a member whose type is an EXTENSION of the head's type, where the head blocks extensions: a rule the
        # parent model applies, not the member's own declaration
        out.append(Doc('sg-valid-noext', self._doc([pool[0], '<s:noext><s:v>1</s:v></s:noext>', '<s:ne0/>'])))
        out.append(Doc('sg-noext-extension-member', self._doc([pool[1], '<s:ne1 m="true"/>', '<s:ne0/>']), 'fault:blocked'))
        out.append(Doc('sg-order', self._doc(['<s:blocked/>', pool[0]]), 'fault:structure'))
        # a required head: the message of the incomplete content names the head and every member of its group
        out.append(Doc('sg-need-empty', _decl() + '<s:need xmlns:s="urn:sg"/>', 'fault:structure'))
        out.append(Doc('sg-need-member', _decl() + '<s:need xmlns:s="urn:sg"><s:m4/><s:tail>t</s:tail></s:need>'))
        return out


# ---------------------------------------------------------------------------
class Fixed(Family):
    """fixed/default values of QName, decimal and pattern-restricted union types."""
    name = 'fixed'
    paths = ('e',)

    def sources(self, version):
        return {'fixed.xsd': f'''<xs:schema {XS} targetNamespace="urn:fx" xmlns:f="urn:fx"
  elementFormDefault="qualified">
 <xs:simpleType name="Code"><xs:restriction base="xs:string"><xs:pattern value="[A-Z]{{2}}[0-9]+"/></xs:restriction></xs:simpleType>
 <xs:simpleType name="Small"><xs:restriction base="xs:int"><xs:maxInclusive value="99"/></xs:restriction></xs:simpleType>
 <xs:simpleType name="U"><xs:union memberTypes="f:Small f:Code xs:boolean"/></xs:simpleType>
 <xs:simpleType name="UP"><xs:restriction base="f:U"><xs:pattern value="[A-Z0-9a-z]{{1,6}}"/></xs:restriction></xs:simpleType>
 <xs:simpleType name="L"><xs:list itemType="f:U"/></xs:simpleType>
 <xs:element name="root">
  <xs:complexType><xs:sequence>
   <xs:element name="e" maxOccurs="unbounded">
    <xs:complexType><xs:sequence>
      <xs:element name="q" type="xs:QName" fixed="f:name" minOccurs="0"/>
      <xs:element name="d" type="xs:decimal" fixed="1.50" minOccurs="0"/>
      <xs:element name="u" type="f:UP" minOccurs="0" maxOccurs="unbounded"/>
      <xs:element name="l" type="f:L" minOccurs="0"/>
      <xs:element name="df" type="xs:int" default="42" minOccurs="0"/>
      <xs:element name="any" type="xs:anySimpleType" fixed="1.0" minOccurs="0" maxOccurs="unbounded"/>
      <xs:element name="dec" type="xs:decimal" fixed="2.0" minOccurs="0" maxOccurs="unbounded"/>
     </xs:sequence>
     <xs:attribute name="aq" type="xs:QName" fixed="f:attr"/>
     <xs:attribute name="ad" type="xs:decimal" fixed="2.0"/>
     <xs:attribute name="au" type="f:UP" default="AB12"/>
     <xs:attribute name="ab" type="xs:boolean" fixed="true"/>
    </xs:complexType>
   </xs:element>
  </xs:sequence></xs:complexType>
 </xs:element>
</xs:schema>'''}

    def _doc(self, es, pfx='f'):
        out = [_decl(), f'<{pfx}:root xmlns:{pfx}="urn:fx">\n']
        for e in es:
            at = ''.join(f' {k}="{v}"' for k, v in e.get('at', {}).items())
            out.append(f' <{pfx}:e{at}>')
            for tag, val in e.get('kids', ()):
                out.append(f'<{pfx}:{tag}>{val}</{pfx}:{tag}>' if val is not None else f'<{pfx}:{tag}/>')
            out.append(f'</{pfx}:e>\n')
        out.append(f'</{pfx}:root>\n')
        return ''.join(out)

    def docs(self, rng):
        good_u = ['7', '99', 'AB12', 'true', '0', 'ZZ9']
        out = []
        es = [{'kids': [('q', 'f:name'), ('d', '1.5'), ('u', 'AB12'), ('u', '12'), ('l', '1 AB2 true'), ('df', None)],
               'at': {'aq': 'f:attr', 'ad': '2.00', 'au': 'ZZ1', 'ab': '1'}},
              {'kids': [('d', '01.500')]}, {}]
        out.append(Doc('fx-valid-a', self._doc(es), prefix_dep=True))
        for n in (3, 10):
            es = []
            for _ in range(n):
                kids = []
                if rng.random() < 0.5:
                    kids.append(('q', 'f:name'))
                if rng.random() < 0.5:
                    kids.append(('d', rng.choice(['1.5', '1.50', '+1.5'])))
                kids += [('u', rng.choice(good_u)) for _ in range(rng.randrange(3))]
                if rng.random() < 0.5:
                    kids.append(('l', ' '.join(rng.choice(good_u) for _ in range(3))))
                if rng.random() < 0.5:
                    kids.append(('df', rng.choice([None, '5'])))
                at = {}
                if rng.random() < 0.5:
                    at['ad'] = rng.choice(['2', '2.0', '2.000'])
                if rng.random() < 0.5:
                    at['au'] = rng.choice(good_u)
                es.append({'kids': kids, 'at': at})
            out.append(Doc(f'fx-valid-{n}', self._doc(es), prefix_dep=True))
        # a fixed value compared in the value space of the instance's xsi:type (typed and untyped occurrences mixed)
        xsi = ' xmlns:xsi="http://www.w3.org/2001/XMLSchema-instance" xmlns:xs="http://www.w3.org/2001/XMLSchema"'

        def typed(kids):
            body = ''.join(f'<f:{t}{a}>{v}</f:{t}>' for t, a, v in kids)
            return _decl() + f'<f:root xmlns:f="urn:fx"{xsi}>\n <f:e>{body}</f:e>\n</f:root>\n'
        out.append(Doc('fx-any-untyped-same', typed([('any', '', '1.0')])))
        out.append(Doc('fx-any-untyped-other-lexical', typed([('any', '', '1.00')]), 'fault:fixed'))
        out.append(Doc('fx-any-typed-decimal', typed([('any', ' xsi:type="xs:decimal"', '1.00')])))
        out.append(Doc('fx-any-typed-then-untyped', typed([('any', ' xsi:type="xs:decimal"', '1.000'), ('any', '', '1.0')])))
        out.append(Doc('fx-any-typed-int-bad', typed([('any', ' xsi:type="xs:int"', '2')]), 'fault:fixed'))
        out.append(Doc('fx-dec-typed-integer', typed([('dec', ' xsi:type="xs:integer"', '2'), ('dec', '', '2.00')]), 'fault:fixed'))
        out.append(Doc('fx-dec-typed-integer-bad', typed([('dec', '', '2.0'), ('dec', ' xsi:type="xs:integer"', '3')]), 'fault:fixed'))
        out.append(Doc('fx-bad-fixed-q', self._doc([{'kids': [('q', 'f:other')]}]), 'fault:fixed', True))
        out.append(Doc('fx-bad-fixed-d', self._doc([{}, {'kids': [('d', '1.51')]}]), 'fault:fixed'))
        out.append(Doc('fx-bad-fixed-attr', self._doc([{'at': {'ad': '2.1'}}]), 'fault:fixed'))
        out.append(Doc('fx-bad-fixed-attr-b', self._doc([{}, {'at': {'ab': 'false', 'ad': '3'}}]), 'fault:fixed'))
        out.append(Doc('fx-badtype-fixed-attr', self._doc([{'at': {'ad': 'zz', 'ab': 'maybe'}}, {'at': {'ad': '2.0'}}]),
                       'fault:lexical'))
        out.append(Doc('fx-bad-union-pattern', self._doc([{'kids': [('u', 'AB1234567')]}]), 'fault:lexical'))
        out.append(Doc('fx-bad-union-member', self._doc([{'kids': [('u', '100')]}, {'kids': [('u', 'ab')]}]),
                       'fault:lexical'))
        out.append(Doc('fx-bad-list', self._doc([{'kids': [('l', '1 2 x!')]}]), 'fault:lexical'))
        out.append(Doc('fx-bad-prefix', self._doc([{'kids': [('q', 'nope:name')]}]), 'fault:lexical', True))
        # the document binds urn:fx to another prefix: the QName defaults 'f:attr' are not resolvable
        out.append(Doc('fx-otherprefix', self._doc([{'kids': [('d', '1.5')]}, {}], 'zz'), 'fault:prefix-scope', True))
        for d in out:
            d.prefix_dep = True   # fixed/default QName attributes are applied to every <e>
        return out


# ---------------------------------------------------------------------------
class Wild(Family):
    name = 'wild'
    paths = ('*',)

    def sources(self, version):
        return {'wild.xsd': f'''<xs:schema {XS} targetNamespace="urn:wd" xmlns:w="urn:wd"
  elementFormDefault="qualified">
 <xs:element name="known" type="xs:int"/>
 <xs:attribute name="ga" type="xs:int"/>
 <xs:element name="skiproot"><xs:complexType><xs:sequence>
   <xs:any namespace="##any" processContents="skip" minOccurs="0" maxOccurs="unbounded"/></xs:sequence></xs:complexType></xs:element>
 <xs:element name="strictroot"><xs:complexType><xs:sequence>
   <xs:any namespace="##any" processContents="strict" minOccurs="0" maxOccurs="unbounded"/></xs:sequence></xs:complexType></xs:element>
 <xs:element name="root">
  <xs:complexType><xs:sequence>
    <xs:element name="lax"><xs:complexType><xs:sequence>
      <xs:any namespace="##any" processContents="lax" minOccurs="0" maxOccurs="unbounded"/>
    </xs:sequence><xs:anyAttribute processContents="lax"/></xs:complexType></xs:element>
    <xs:element name="strict" minOccurs="0"><xs:complexType><xs:sequence>
      <xs:any namespace="##targetNamespace" processContents="strict" minOccurs="0" maxOccurs="unbounded"/>
    </xs:sequence><xs:anyAttribute namespace="##targetNamespace" processContents="strict"/></xs:complexType></xs:element>
    <xs:element name="skip" minOccurs="0"><xs:complexType><xs:sequence>
      <xs:any namespace="##other" processContents="skip" minOccurs="0" maxOccurs="unbounded"/>
    </xs:sequence></xs:complexType></xs:element>
    <xs:element name="anyt" type="xs:anyType" minOccurs="0"/>
    <xs:any namespace="##other" processContents="lax" minOccurs="0" maxOccurs="unbounded"/>
  </xs:sequence></xs:complexType>
 </xs:element>
</xs:schema>'''}

    def _doc(self, lax='', strict=None, skip=None, anyt=None, tail='', laxattr=''):
        s = _decl() + '<w:root xmlns:w="urn:wd" xmlns:o="urn:other">\n'
        s += f' <w:lax{laxattr}>{lax}</w:lax>\n'
        if strict is not None:
            s += f' <w:strict>{strict}</w:strict>\n'
        if skip is not None:
            s += f' <w:skip>{skip}</w:skip>\n'
        if anyt is not None:
            s += f' <w:anyt>{anyt}</w:anyt>\n'
        return s + tail + '</w:root>\n'

    def docs(self, rng):
        D = self._doc
        return [
            Doc('wd-valid-min', D()),
            Doc('wd-valid-lax', D('<w:known>1</w:known><o:x><o:y/></o:x><unq/>', laxattr=' w:ga="3" o:z="q"')),
            Doc('wd-valid-all', D('<w:known>5</w:known>', '<w:known>2</w:known><w:known>3</w:known>',
                                  '<o:junk a="1"><w:known>not-int</w:known></o:junk>',
                                  '<deep><deeper x="1">t</deeper>m</deep>', ' <o:t1/>\n <o:t2>z</o:t2>\n')),
            Doc('wd-lax-badknown', D('<o:x/><w:known>bad</w:known>'), 'fault:lexical'),
            Doc('wd-lax-badattr', D(laxattr=' w:ga="x"'), 'fault:lexical'),
            Doc('wd-strict-unknown', D('', '<w:nope/>'), 'fault:wildcard'),
            Doc('wd-strict-wrongns', D('', '<o:known/>'), 'fault:wildcard'),
            Doc('wd-skip-wrongns', D('', None, '<w:known>1</w:known>'), 'fault:wildcard'),
            Doc('wd-tail-target', D(tail=' <w:known>1</w:known>\n'), 'fault:wildcard'),
            Doc('wd-tail-many', D(tail=''.join(f' <o:t n="{i}"/>\n' for i in range(15)))),
            Doc('wd-lax-unknown-xsitype', D('<unq xmlns:xsi="http://www.w3.org/2001/XMLSchema-instance" '
                                            'xmlns:xs="http://www.w3.org/2001/XMLSchema" xsi:type="xs:int">5</unq>'),
                prefix_dep=True),
            Doc('wd-lax-unknown-nil', D('<unq xmlns:xsi="http://www.w3.org/2001/XMLSchema-instance" xsi:nil="true"/>'),
                'fault:nil'),
            Doc('wd-lax-unknown-xsitype-nil', D('<unq xmlns:xsi="http://www.w3.org/2001/XMLSchema-instance" '
                                                'xmlns:xs="http://www.w3.org/2001/XMLSchema" xsi:type="xs:int" xsi:nil="true"/>'),
                prefix_dep=True),
            Doc('wd-strictattr-declared', D('', '<w:known>1</w:known>').replace('<w:strict>', '<w:strict w:ga="3">')),
            Doc('wd-strictattr-undeclared', D('', '').replace('<w:strict>', '<w:strict w:nope="1">'), 'fault:wildcard'),
            Doc('wd-strictattr-badvalue', D('', '').replace('<w:strict>', '<w:strict w:ga="x">'), 'fault:lexical'),
            Doc('wd-lax-unknown-plain', D('<unq>text</unq><unq2 a="1"/>')),
            Doc('wd-tail-nested', D('<o:x><o:y><o:z/></o:y></o:x>', tail=' <o:t1><o:d1><o:d2>t</o:d2></o:d1></o:t1>\n <o:t2/>\n')),
            # children of the root admitted by its lax wildcard that have NO declaration: assessed laxly, so a declared
            # descendant is validated, an xsi:type is honoured, xsi:nil meets the undeclared element's defaults
            Doc('wd-tail-undeclared-known-bad', D(tail=' <o:t1><w:known>not-int</w:known></o:t1>\n <o:t2/>\n'), 'fault:lexical'),
            Doc('wd-tail-undeclared-known-ok', D(tail=' <o:t1><w:known>7</w:known><o:d><w:known>8</w:known></o:d></o:t1>\n')),
            Doc('wd-tail-undeclared-nil', D(tail=' <o:t1 xmlns:xsi="http://www.w3.org/2001/XMLSchema-instance" xsi:nil="true"/>\n'),
                'fault:nil'),
            # a DECLARED element at a position where the content model does not admit it, invalid in itself
            Doc('wd-tail-target-bad', D(tail=' <w:known>x</w:known>\n'), 'fault:wildcard', tag='misplaced-child-with-own-errors'),
            # children of a root whose only particle is a wildcard: skipped whatever they are / found or refused
            Doc('wd-skiproot-known-bad', _decl() + '<w:skiproot xmlns:w="urn:wd"><w:known>x</w:known><junk/><w:known>2</w:known></w:skiproot>'),
            Doc('wd-strictroot-unknown', _decl() + '<w:strictroot xmlns:w="urn:wd"><w:known>1</w:known><w:nope/></w:strictroot>',
                'fault:wildcard'),
            Doc('wd-strictroot-known-bad', _decl() + '<w:strictroot xmlns:w="urn:wd"><w:known>x</w:known></w:strictroot>', 'fault:lexical'),
            Doc('wd-tail-undeclared-deep-bad', D(tail=' <o:t1/>\n <o:t2><o:d><w:known>x</w:known></o:d><w:known>9</w:known></o:t2>\n'),
                'fault:lexical'),
        ]


# ---------------------------------------------------------------------------
class Ns(Family):
    """Nested prefix redeclaration and default-namespace toggling; QName-typed content."""
    name = 'ns'
    paths = ('*',)
    doc_ns_paths = ('node', 'a:node')   # resolved with the declarations of each document

    def sources(self, version):
        return {'ns.xsd': f'''<xs:schema {XS} targetNamespace="urn:n1" xmlns:a="urn:n1" xmlns:b="urn:n2"
  elementFormDefault="qualified">
 <xs:import namespace="urn:n2" schemaLocation="ns2.xsd"/>
 <xs:element name="root">
  <xs:complexType><xs:sequence>
    <xs:element name="node" type="a:Node" minOccurs="0" maxOccurs="unbounded"/>
    <xs:element name="node" form="unqualified" type="xs:int" minOccurs="0" maxOccurs="unbounded"/>
  </xs:sequence></xs:complexType>
 </xs:element>
 <xs:complexType name="Node"><xs:sequence>
   <xs:element name="qn" type="xs:QName" minOccurs="0"/>
   <xs:element ref="b:leaf" minOccurs="0" maxOccurs="unbounded"/>
   <xs:element name="node" type="a:Node" minOccurs="0" maxOccurs="unbounded"/>
  </xs:sequence>
  <xs:attribute name="q" type="xs:QName"/>
 </xs:complexType>
</xs:schema>''', 'ns2.xsd': f'''<xs:schema {XS} targetNamespace="urn:n2" elementFormDefault="qualified">
 <xs:element name="leaf" type="xs:string"/>
</xs:schema>'''}

    def _node(self, rng, depth, scope):
        # scope: dict prefix -> uri currently in force (prefix '' is the default namespace)
        decl = ''
        scope = dict(scope)
        r = rng.random()
        if r < 0.3:
            scope['p'] = rng.choice(['urn:n1', 'urn:n2', 'urn:x'])
            decl += f' xmlns:p="{scope["p"]}"'
        elif r < 0.5:
            scope[''] = rng.choice(['urn:n1', 'urn:n2'])
            decl += f' xmlns="{scope[""]}"'

        def name(uri, local):
            for pfx, u in scope.items():
                if u == uri and pfx:
                    return f'{pfx}:{local}'
            if scope.get('') == uri:
                return local
            return None
        tag = name('urn:n1', 'node')
        if tag is None:
            decl += ' xmlns:a="urn:n1"'
            scope['a'] = 'urn:n1'
            tag = 'a:node'
        qv = rng.choice([p for p in scope if p]) + ':val'
        s = f'<{tag}{decl} q="{qv}">'
        if rng.random() < 0.5:
            s += f'<{name("urn:n1", "qn")}>{qv}</{name("urn:n1", "qn")}>'
        lf = name('urn:n2', 'leaf')
        if lf and rng.random() < 0.6:
            s += f'<{lf}>L</{lf}>'
        if depth > 0:
            for _ in range(rng.randrange(0, 3)):
                s += self._node(rng, depth - 1, scope)
        return s + f'</{tag}>'

    def docs(self, rng):
        out = []
        for k, depth in enumerate((1, 2, 3, 3)):
            body = ''.join(' ' + self._node(rng, depth, {'a': 'urn:n1', 'b': 'urn:n2'}) + '\n'
                           for _ in range(rng.randrange(1, 5)))
            out.append(Doc(f'ns-valid-{k}', _decl() + '<a:root xmlns:a="urn:n1" xmlns:b="urn:n2">\n' + body
                           + '</a:root>\n', prefix_dep=True))
        out.append(Doc('ns-default', _decl() + '<root xmlns="urn:n1"><node q="x:v" xmlns:x="urn:q">'
                       '<leaf xmlns="urn:n2">t</leaf><node xmlns="urn:n1"/></node></root>', prefix_dep=True))
        # siblings that each declare the same prefix for their own QName values (the second declaration is no
        # redeclaration of anything in scope: it must not be lost by a source kind that diffs namespace maps)
        out.append(Doc('ns-sibling-same-prefix', _decl() + '<a:root xmlns:a="urn:n1"><a:node xmlns:p="urn:p" q="p:v"/>'
                       '<a:node xmlns:p="urn:p" q="p:w"><a:qn>p:x</a:qn></a:node><a:node xmlns:p="urn:p2" q="p:v"/></a:root>',
                       prefix_dep=True))
        out.append(Doc('ns-bad-prefix', _decl() + '<a:root xmlns:a="urn:n1"><a:node q="zz:v"/></a:root>',
                       'fault:lexical', True))
        out.append(Doc('ns-bad-scope', _decl() + '<a:root xmlns:a="urn:n1"><a:node><a:node xmlns:p="urn:p"/>'
                       '<a:node q="p:late"/></a:node></a:root>', 'fault:lexical', True))
        out.append(Doc('ns-wrong-ns-child', _decl() + '<a:root xmlns:a="urn:n1"><a:node><a:leaf/></a:node></a:root>',
                       'fault:structure'))
        # namespaces declared only below the children of the root (inside the chunks of a lazy resource)
        out.append(Doc('ns-deep-decl', _decl() + '<a:root xmlns:a="urn:n1"><a:node><a:node xmlns:d2="urn:deep2" q="d2:v">'
                       '<a:node xmlns:d3="urn:deep3" q="d3:v"><a:qn>d2:w</a:qn></a:node></a:node></a:node>'
                       '<a:node xmlns:d1="urn:deep1" q="d1:v"/></a:root>', prefix_dep=True))
        # the same names under other bindings: the prefix of the schema bound to the other namespace, the target
        # namespace as default (a path given without a namespace map reads the document's declarations)
        out.append(Doc('ns-a-is-n2', _decl() + '<x:root xmlns:x="urn:n1" xmlns:a="urn:n2"><x:node q="a:v"><a:leaf>t</a:leaf>'
                       '</x:node></x:root>', prefix_dep=True))
        out.append(Doc('ns-default-flat', _decl() + '<root xmlns="urn:n1"><node/><node><qn>node</qn></node><node xmlns="">5</node>'
                       '</root>', prefix_dep=True))
        out.append(Doc('ns-prefixed-flat', _decl() + '<a:root xmlns:a="urn:n1"><a:node/><node>6</node><node>7</node></a:root>',
                       prefix_dep=True))
        out.append(Doc('ns-default-flat-bad', _decl() + '<root xmlns="urn:n1"><node/><node xmlns="">five</node><node xmlns="">5</node>'
                       '</root>', 'fault:lexical', True))
        out.append(Doc('ns-prefixed-flat-bad', _decl() + '<a:root xmlns:a="urn:n1"><a:node/><node>six</node></a:root>',
                       'fault:lexical', True))
        return out


# ---------------------------------------------------------------------------
class Mixed(Family):
    name = 'mixed'
    paths = ('p', 'nums')

    def sources(self, version):
        return {'mixed.xsd': f'''<xs:schema {XS}>
 <xs:element name="doc">
  <xs:complexType><xs:sequence>
   <xs:element name="p" maxOccurs="unbounded">
    <xs:complexType mixed="true"><xs:choice minOccurs="0" maxOccurs="unbounded">
      <xs:element name="b" type="xs:string"/>
      <xs:element name="i" type="xs:string"/>
      <xs:element name="n" type="xs:decimal"/>
    </xs:choice><xs:attribute name="lang" type="xs:language"/></xs:complexType>
   </xs:element>
   <xs:element name="nums" minOccurs="0" maxOccurs="unbounded">
    <xs:simpleType><xs:list itemType="xs:short"/></xs:simpleType>
   </xs:element>
   <xs:element name="when" type="xs:dateTime" minOccurs="0"/>
   <xs:element name="bin" type="xs:hexBinary" minOccurs="0"/>
   <xs:element name="nil" type="xs:int" nillable="true" minOccurs="0"/>
   <xs:element name="fx" fixed="abc" minOccurs="0" maxOccurs="unbounded">
    <xs:complexType mixed="true"><xs:sequence><xs:element name="x" minOccurs="0"/></xs:sequence></xs:complexType>
   </xs:element>
  </xs:sequence></xs:complexType>
 </xs:element>
</xs:schema>'''}

    def _p(self, rng):
        parts = [rng.choice(['text ', 'more&amp;', ' é ', '']) for _ in range(4)]
        kids = [rng.choice(['<b>bold</b>', '<i>it</i>', '<n>1.25</n>', '<!-- c -->', '<?pi x?>'])
                for _ in range(3)]
        body = ''.join(a + b for a, b in zip(parts, kids + ['']))
        return f'<p lang="en">{body}</p>'

    def docs(self, rng):
        out = []
        for n in (1, 5, 14):
            body = ''.join(' ' + self._p(rng) + '\n' for _ in range(n))
            body += ' <nums>1 2  3\n -4</nums>\n <when>2020-01-01T00:00:00Z</when>\n <bin>0aFF</bin>\n'
            body += ' <nil xsi:nil="true" xmlns:xsi="http://www.w3.org/2001/XMLSchema-instance"/>\n'
            out.append(Doc(f'mx-valid-{n}', _decl() + '<doc>\n' + body + '</doc>\n'))
        out.append(Doc('mx-bad-short', _decl() + '<doc><p/><nums>1 40000</nums></doc>', 'fault:lexical'))
        out.append(Doc('mx-bad-dt', _decl() + '<doc><p>t</p><when>2020-13-01T00:00:00</when></doc>', 'fault:lexical'))
        out.append(Doc('mx-bad-hex', _decl() + '<doc><p>t</p><bin>0aF</bin></doc>', 'fault:lexical'))
        out.append(Doc('mx-bad-nil', _decl() + '<doc><p/><nil xsi:nil="true" '
                       'xmlns:xsi="http://www.w3.org/2001/XMLSchema-instance">1</nil></doc>', 'fault:nil'))
        out.append(Doc('mx-bad-child', _decl() + '<doc><p>t<u>x</u></p><p><b>ok</b></p></doc>', 'fault:structure'))
        out.append(Doc('mx-missing', _decl() + '<doc><nums>1</nums></doc>', 'fault:structure'))
        out.append(Doc('mx-hugeyear', _decl() + '<doc><p/><when>99999999999-01-01T00:00:00</when></doc>',
                       'fault:lexical'))
        # a fixed value on mixed content: given, left out, blank, wrong
        out.append(Doc('mx-fixed-valid', _decl() + '<doc><p/><fx>abc</fx><fx/><fx></fx></doc>'))
        out.append(Doc('mx-fixed-blank', _decl() + '<doc><p/><fx> </fx></doc>', 'fault:fixed'))
        out.append(Doc('mx-fixed-wrong', _decl() + '<doc><p/><fx>abc</fx><fx>abd</fx></doc>', 'fault:fixed'))
        out.append(Doc('mx-fixed-child', _decl() + '<doc><p/><fx>abc<x/></fx></doc>', 'fault:fixed'))
        # a document in another encoding than UTF-8, with characters outside ASCII: a caller who holds it as text holds
        # the same characters
        out.append(Doc('mx-latin1', ('<?xml version="1.0" encoding="iso-8859-1"?>\n<doc><p lang="fr">caf\u00e9 \u00e0 la '
                                     'cr\u00e8me<b>\u00fc\u00df</b></p><nums>1 2</nums></doc>').encode('latin-1')))
        out.append(Doc('mx-latin1-bad', ('<?xml version="1.0" encoding="iso-8859-1"?>\n<doc><p>\u00e9<u>\u00e8</u></p></doc>')
                       .encode('latin-1'), 'fault:structure'))
        return out


# ---------------------------------------------------------------------------
class Assert11(Family):
    name = 'assert11'
    versions = ('1.1',)
    paths = ('row',)

    def sources(self, version):
        return {'a11.xsd': f'''<xs:schema {XS} xmlns:vc="http://www.w3.org/2007/XMLSchema-versioning"
   elementFormDefault="qualified">
 <xs:element name="table">
  <xs:complexType><xs:sequence>
    <xs:element name="row" maxOccurs="unbounded">
     <xs:alternative test="@total=99" type="NumRow"/>
     <xs:alternative test="@kind='n'" type="NumRow"/>
     <xs:alternative test="@kind='s'" type="StrRow"/>
     <xs:alternative type="AnyRow"/>
    </xs:element>
    <xs:element name="sc" type="SC" minOccurs="0" maxOccurs="unbounded"/>
    <xs:element name="qn" type="QN" minOccurs="0" maxOccurs="unbounded"/>
   </xs:sequence>
   <xs:attribute name="total" type="xs:int" inheritable="true"/>
   <xs:assert test="count(row) le 40"/>
   <xs:assert test="every $r in row[@deep] satisfies count($r/*) ge 1"/>
  </xs:complexType>
 </xs:element>
 <xs:complexType name="SC"><xs:simpleContent><xs:extension base="xs:string">
   <xs:assert test="string-length($value) le 3"/></xs:extension></xs:simpleContent></xs:complexType>
 <xs:complexType name="AnyRow"><xs:sequence><xs:any processContents="lax" minOccurs="0" maxOccurs="unbounded"/></xs:sequence>
   <xs:attribute name="kind" type="xs:string"/><xs:attribute name="deep" type="xs:int"/></xs:complexType>
 <xs:complexType name="NumRow"><xs:complexContent><xs:extension base="AnyRow">
   <xs:attribute name="lo" type="xs:int" use="required"/><xs:attribute name="hi" type="xs:int" use="required"/>
   <xs:assert test="@lo le @hi"/>
   </xs:extension></xs:complexContent></xs:complexType>
 <xs:complexType name="StrRow"><xs:complexContent><xs:extension base="AnyRow">
   <xs:attribute name="s" use="required"><xs:simpleType><xs:restriction base="xs:string">
     <xs:assertion test="string-length($value) mod 2 = 0"/></xs:restriction></xs:simpleType></xs:attribute>
   </xs:extension></xs:complexContent></xs:complexType>
 <xs:complexType name="QN"><xs:sequence><xs:element name="qn" type="QN" minOccurs="0" maxOccurs="unbounded"/></xs:sequence>
   <xs:attribute name="kind" type="xs:string" use="required"/>
   <xs:assert test="namespace-uri-from-QName(resolve-QName(string(@kind), .)) = 'urn:k'"/></xs:complexType>
</xs:schema>'''}

    def _doc(self, rows, total='3'):
        return _decl() + f'<table total="{total}">\n' + ''.join(f' {r}\n' for r in rows) + '</table>\n'

    def docs(self, rng):
        good = ['<row kind="n" lo="1" hi="2"/>', '<row kind="s" s="abcd"/>', '<row><x/></row>',
                '<row kind="n" lo="-5" hi="-5"><y>t</y></row>', '<row kind="other"/>']
        out = []
        for n in (1, 6, 18):
            out.append(Doc(f'a11-valid-{n}', self._doc([rng.choice(good) for _ in range(n)])))
        out.append(Doc('a11-bad-assert', self._doc([good[0], '<row kind="n" lo="3" hi="2"/>', good[1]]),
                       'fault:assert'))
        out.append(Doc('a11-bad-assertion', self._doc(['<row kind="s" s="abc"/>']), 'fault:assert'))
        out.append(Doc('a11-bad-alt', self._doc(['<row kind="n"/>']), 'fault:structure'))
        out.append(Doc('a11-bad-count', self._doc([good[2]] * 41), 'fault:assert'))
        out.append(Doc('a11-sc-valid', self._doc([good[0], '<sc>ab</sc>', '<sc/>', '<sc>xyz</sc>'])))
        out.append(Doc('a11-sc-empty', self._doc([good[1], '<sc/>', '<sc></sc>'])))
        out.append(Doc('a11-sc-bad', self._doc([good[0], '<sc>abcdef</sc>']), 'fault:assert'))
        # the root's INHERITABLE attribute decides the type alternative of the rows
        out.append(Doc('a11-inherit-valid', self._doc(['<row lo="1" hi="2"/>', '<row kind="s" lo="0" hi="0"/>'], total='99')))
        out.append(Doc('a11-inherit-bad', self._doc(['<row lo="1" hi="2"/>', '<row kind="s" s="abcd"/>', '<row lo="3" hi="1"/>'],
                                                   total='99'), 'fault:structure'))
        # an assertion on the ROOT type that looks at grandchildren
        out.append(Doc('a11-valid-deep', self._doc([good[0], '<row deep="1"><x/></row>', '<row deep="2" kind="other"><x/><y/></row>']),
                       tag='root-assert-on-grandchildren'))
        out.append(Doc('a11-bad-deep', self._doc(['<row deep="1"/>', good[2]]), 'fault:assert', tag='root-assert-on-grandchildren'))
        out.append(Doc('a11-sc-bad-then-empty', self._doc([good[0], '<sc>abcdef</sc>', '<sc/>']), 'fault:assert'))
        # assertions that read the in-scope namespaces of the element: prefixes declared on the element itself, on a
        # child of the root, deeper, and rebound
        out.append(Doc('a11-qn-valid', self._doc([good[0], '<qn xmlns:k="urn:k" kind="k:a"/>',
                                                  '<qn xmlns:k2="urn:k" kind="k2:b"><qn kind="k2:c"/><qn xmlns:k3="urn:k" kind="k3:d">'
                                                  '<qn kind="k3:e"/></qn></qn>']), prefix_dep=True))
        out.append(Doc('a11-qn-rebound', self._doc([good[0], '<qn xmlns:k="urn:k" kind="k:a"><qn xmlns:k="urn:other" kind="k:b"/>'
                                                    '<qn kind="k:c"/></qn>']), 'fault:assert', prefix_dep=True))
        out.append(Doc('a11-qn-unbound', self._doc([good[0], '<qn xmlns:k="urn:k" kind="k:a"/>', '<qn kind="k:late"/>']),
                       'fault:assert', prefix_dep=True))
        return out


# ---------------------------------------------------------------------------
class Recur(Family):
    name = 'recur'

    def sources(self, version):
        return {'recur.xsd': f'''<xs:schema {XS}>
 <xs:element name="n">
  <xs:complexType><xs:sequence>
    <xs:element ref="n" minOccurs="0" maxOccurs="unbounded"/>
   </xs:sequence><xs:attribute name="v" type="xs:int"/></xs:complexType>
 </xs:element>
</xs:schema>'''}

    @staticmethod
    def nested(depth, width=1):
        """depth nested <n> elements (root counts as 1); `width` extra leaf children per level."""
        side = '<n/>' * (width - 1)
        if depth < 2:
            return (_decl() + '<n/>').encode()
        # side leaves live in elements of level <= depth-1, so they sit at level <= depth
        return (_decl() + '<n>' * (depth - 1) + '<n/>' + (side + '</n>') * (depth - 1)).encode()

    @staticmethod
    def nsflat(count):
        """depth 3, `count` parents whose last child declares a namespace prefix."""
        return (_decl() + '<n>' + '<n><n v="1"/><n xmlns:p="urn:x" xmlns:q="urn:y"/></n>' * count + '</n>').encode()

    @staticmethod
    def decorate(data, rng, n):
        """Insert n comments / processing instructions (prolog, between elements, before the end)."""
        import re
        text = data.decode()
        spots = [m.end() for m in re.finditer(r'\?>\n|<n[^>]*>|</n>', text)]
        for _ in range(n):
            k = rng.choice(spots)
            ins = rng.choice(['<!--c-->', '<?pi x?>'])
            text = text[:k] + ins + text[k:]
            spots = [p + len(ins) if p >= k else p for p in spots]
        return text.encode()

    @staticmethod
    def wide(count):
        """a root with count-1 children: `count` elements in total."""
        return (_decl() + '<n>' + '<n v="1"/>' * (count - 1) + '</n>').encode()

    def docs(self, rng):
        return [Doc('rc-1', self.nested(1)), Doc('rc-5', self.nested(5, 2)), Doc('rc-30', self.nested(30)),
                Doc('rc-wide-50', self.wide(50)),
                Doc('rc-bad', _decl() + '<n><n v="x"/><n><m/></n></n>', 'fault:lexical')]


# ---------------------------------------------------------------------------
class Multi(Family):
    """A schema assembled from several source documents (C09)."""
    name = 'multi'
    paths = ('*',)

    def sources(self, version):
        return {
            'main.xsd': f'''<xs:schema {XS} targetNamespace="urn:m" xmlns:m="urn:m" xmlns:o="urn:o" xmlns:p="urn:p"
  elementFormDefault="qualified">
 <xs:include schemaLocation="inc1.xsd"/>
 <xs:import namespace="urn:o" schemaLocation="other.xsd"/>
 <xs:import namespace="urn:p" schemaLocation="third.xsd"/>
 <xs:element name="root" type="m:RootT"/>
 <xs:element name="alt" type="m:Late" substitutionGroup="m:slot"/>
</xs:schema>''',
            'inc1.xsd': f'''<xs:schema {XS} targetNamespace="urn:m" xmlns:m="urn:m" xmlns:o="urn:o" xmlns:p="urn:p"
  elementFormDefault="qualified">
 <xs:include schemaLocation="inc2.xsd"/>
 <xs:import namespace="urn:o" schemaLocation="other.xsd"/>
 <xs:import namespace="urn:p" schemaLocation="third.xsd"/>
 <xs:complexType name="RootT"><xs:sequence>
   <xs:element ref="m:slot" maxOccurs="unbounded"/>
   <xs:element ref="o:thing" minOccurs="0" maxOccurs="unbounded"/>
   <xs:element ref="p:third" minOccurs="0"/>
  </xs:sequence><xs:attributeGroup ref="m:ag"/></xs:complexType>
</xs:schema>''',
            'inc2.xsd': f'''<xs:schema {XS} targetNamespace="urn:m" xmlns:m="urn:m" elementFormDefault="qualified">
 <xs:element name="slot" type="m:Late"/>
 <xs:complexType name="Late"><xs:sequence><xs:group ref="m:g"/></xs:sequence></xs:complexType>
 <xs:group name="g"><xs:sequence><xs:element name="v" type="m:Code" minOccurs="0" maxOccurs="3"/></xs:sequence></xs:group>
 <xs:simpleType name="Code"><xs:restriction base="xs:token"><xs:enumeration value="A"/><xs:enumeration value="B"/></xs:restriction></xs:simpleType>
 <xs:attributeGroup name="ag"><xs:attribute name="ver" type="xs:decimal"/></xs:attributeGroup>
</xs:schema>''',
            'other.xsd': f'''<xs:schema {XS} targetNamespace="urn:o" xmlns:o="urn:o" xmlns:p="urn:p" elementFormDefault="qualified">
 <xs:import namespace="urn:p" schemaLocation="third.xsd"/>
 <xs:element name="thing"><xs:complexType><xs:sequence><xs:element ref="p:third" minOccurs="0"/></xs:sequence>
   <xs:attribute name="n" type="p:PT"/></xs:complexType></xs:element>
</xs:schema>''',
            'third.xsd': f'''<xs:schema {XS} targetNamespace="urn:p" xmlns:p="urn:p" elementFormDefault="qualified">
 <xs:simpleType name="PT"><xs:restriction base="xs:int"><xs:minInclusive value="0"/></xs:restriction></xs:simpleType>
 <xs:element name="third" type="p:PT"/>
</xs:schema>''',
        }

    def docs(self, rng):
        h = '<m:root xmlns:m="urn:m" xmlns:o="urn:o" xmlns:p="urn:p"'
        return [
            Doc('mu-valid-a', _decl() + h + ' ver="1.0"><m:slot><m:v>A</m:v></m:slot><m:alt/><o:thing n="3"><p:third>4</p:third></o:thing><p:third>0</p:third></m:root>'),
            Doc('mu-valid-b', _decl() + h + '><m:slot/></m:root>'),
            Doc('mu-bad-enum', _decl() + h + '><m:slot><m:v>C</m:v></m:slot></m:root>', 'fault:lexical'),
            Doc('mu-bad-pt', _decl() + h + '><m:slot/><o:thing n="-1"/></m:root>', 'fault:lexical'),
            Doc('mu-bad-order', _decl() + h + '><o:thing/><m:slot/></m:root>', 'fault:structure'),
            Doc('mu-bad-count', _decl() + h + '><m:slot><m:v>A</m:v><m:v>A</m:v><m:v>B</m:v><m:v>B</m:v></m:slot></m:root>',
                'fault:structure'),
        ]


class Multi2(Family):
    """Imports without schemaLocation: the other documents are registered by the caller, in any order."""
    name = 'multi2'
    paths = ('*',)
    extra = ('part2.xsd', 'other2.xsd', 'third2.xsd')

    def sources(self, version):
        return {
            'main2.xsd': f'''<xs:schema {XS} targetNamespace="urn:m" xmlns:m="urn:m" xmlns:o="urn:o" xmlns:p="urn:p"
  elementFormDefault="qualified">
 <xs:import namespace="urn:o"/>
 <xs:import namespace="urn:p"/>
 <xs:element name="root"><xs:complexType><xs:sequence>
   <xs:element ref="m:slot" maxOccurs="unbounded"/>
   <xs:element ref="o:thing" minOccurs="0" maxOccurs="unbounded"/>
   <xs:element ref="p:third" minOccurs="0"/>
  </xs:sequence><xs:attribute name="ver" type="m:Ver"/></xs:complexType></xs:element>
</xs:schema>''',
            'part2.xsd': f'''<xs:schema {XS} targetNamespace="urn:m" xmlns:m="urn:m" xmlns:p="urn:p" elementFormDefault="qualified">
 <xs:import namespace="urn:p"/>
 <xs:element name="slot" type="m:Late"/>
 <xs:element name="alt" type="m:Late" substitutionGroup="m:slot"/>
 <xs:complexType name="Late"><xs:sequence><xs:element name="v" type="p:PT" minOccurs="0" maxOccurs="3"/></xs:sequence></xs:complexType>
 <xs:simpleType name="Ver"><xs:restriction base="xs:decimal"><xs:minInclusive value="1"/></xs:restriction></xs:simpleType>
</xs:schema>''',
            'other2.xsd': f'''<xs:schema {XS} targetNamespace="urn:o" xmlns:o="urn:o" xmlns:p="urn:p" elementFormDefault="qualified">
 <xs:import namespace="urn:p"/>
 <xs:element name="thing"><xs:complexType><xs:sequence><xs:element ref="p:third" minOccurs="0"/></xs:sequence>
   <xs:attribute name="n" type="p:PT"/></xs:complexType></xs:element>
</xs:schema>''',
            'third2.xsd': f'''<xs:schema {XS} targetNamespace="urn:p" xmlns:p="urn:p" elementFormDefault="qualified">
 <xs:simpleType name="PT"><xs:restriction base="xs:int"><xs:minInclusive value="0"/></xs:restriction></xs:simpleType>
 <xs:element name="third" type="p:PT"/>
</xs:schema>''',
        }

    def assemble(self, directory, cls, build=True, order=None):
        import os
        order = list(order) if order is not None else list(self.extra)
        return cls([os.path.join(directory, 'main2.xsd')] + [os.path.join(directory, n) for n in order], build=build)

    def docs(self, rng):
        h = '<m:root xmlns:m="urn:m" xmlns:o="urn:o" xmlns:p="urn:p"'
        return [
            Doc('m2-valid-a', _decl() + h + ' ver="1.0"><m:slot><m:v>3</m:v></m:slot><m:alt/><o:thing n="3"><p:third>4</p:third></o:thing><p:third>0</p:third></m:root>'),
            Doc('m2-valid-b', _decl() + h + '><m:slot/></m:root>'),
            Doc('m2-bad-pt', _decl() + h + '><m:slot><m:v>-3</m:v></m:slot><o:thing n="-1"/></m:root>', 'fault:lexical'),
            Doc('m2-bad-ver', _decl() + h + ' ver="0.5"><m:slot/></m:root>', 'fault:lexical'),
            Doc('m2-bad-order', _decl() + h + '><o:thing/><m:slot/></m:root>', 'fault:structure'),
        ]


class Shadow(Family):
    """Local declarations that share a name with a global element of another type."""
    name = 'shadow'
    paths = ('code', 'box/code')

    def sources(self, version):
        return {'shadow.xsd': f'''<xs:schema {XS}>
 <xs:element name="code" type="xs:int"/>
 <xs:element name="box"><xs:complexType><xs:sequence>
   <xs:element name="code" type="xs:date" maxOccurs="unbounded"/></xs:sequence></xs:complexType></xs:element>
 <xs:element name="self"><xs:complexType><xs:sequence>
   <xs:element name="self" type="xs:int" maxOccurs="unbounded"/></xs:sequence>
   <xs:attribute name="a" type="xs:string"/></xs:complexType></xs:element>
 <xs:element name="root">
  <xs:complexType><xs:sequence>
   <xs:element name="code" type="xs:string" maxOccurs="unbounded"/>
   <xs:element ref="box" minOccurs="0" maxOccurs="unbounded"/>
   <xs:element name="crate" minOccurs="0" maxOccurs="unbounded"><xs:complexType><xs:sequence>
     <xs:element name="code" type="xs:string" maxOccurs="unbounded"/></xs:sequence></xs:complexType></xs:element>
  </xs:sequence></xs:complexType>
 </xs:element>
 <xs:element name="bag"><xs:complexType><xs:sequence>
   <xs:element name="code" type="xs:string"/>
   <xs:any processContents="lax" minOccurs="0" maxOccurs="unbounded"/></xs:sequence></xs:complexType></xs:element>
</xs:schema>'''}

    def docs(self, rng):
        return [
            Doc('sh-valid-a', _decl() + '<root><code>A1</code><code>007</code><code>B2</code></root>'),
            Doc('sh-valid-b', _decl() + '<root><code>x</code><box><code>2020-01-01</code></box><box><code>2021-12-31</code><code>2000-02-29</code></box></root>'),
            Doc('sh-bad-box', _decl() + '<root><code>x</code><box><code>12</code></box></root>', 'fault:lexical'),
            Doc('sh-bad-extra', _decl() + '<root><code>x</code><bogus/></root>', 'fault:structure'),
            # a local child that has the name of the root
            Doc('sh-valid-self', _decl() + '<self a="x"><self>1</self><self>2</self></self>'),
            Doc('sh-bad-self', _decl() + '<self a="x"><self>1</self><self>two</self></self>', 'fault:lexical'),
            # depth-1 children that decode to None between others (one result per lazy placeholder)
            Doc('sh-valid-empties', _decl() + '<root><code>A</code><code/><code>B</code><code></code><box><code>2020-01-01</code></box>'
                '<crate><code/></crate></root>'),
            # the same tag at the same depth under another parent: a path of child steps must not select it
            Doc('sh-valid-crate', _decl() + '<root><code>x</code><box><code>2020-01-01</code></box><crate><code>not a date</code>'
                '<code>12</code></crate><crate><code>z</code></crate></root>'),
            Doc('sh-bad-crate-box', _decl() + '<root><code>x</code><box><code>tomorrow</code></box><crate><code>2020-01-01</code>'
                '</crate></root>', 'fault:lexical'),
            # a wildcard-matched child resolved to a global declaration that is not consistent with the local one of
            # the same name: reported by every validation, not only by the first that meets the couple
            Doc('sh-bag-valid', _decl() + '<bag><code>x</code><box><code>2020-01-01</code></box><self><self>1</self></self></bag>'),
            Doc('sh-bag-edc', _decl() + '<bag><code>x</code><code>12</code></bag>', 'fault:structure'),
            Doc('sh-bag-edc2', _decl() + '<bag><code>y</code><box><code>2020-01-01</code></box><code>7</code><code>8</code></bag>',
                'fault:structure'),
        ]


class IdFields(Family):
    """Identity fields of date / duration / list types and a key reference whose key scope is optional."""
    name = 'idfields'
    paths = ('sec', 'ref', 'blk')

    def sources(self, version):
        return {'idfields.xsd': f'''<xs:schema {XS}>
 <xs:element name="r">
  <xs:complexType><xs:sequence>
   <xs:element name="sec" minOccurs="0" maxOccurs="unbounded">
    <xs:complexType><xs:sequence>
     <xs:element name="it" maxOccurs="unbounded">
      <xs:complexType>
       <xs:attribute name="k" type="xs:int" use="required"/>
       <xs:attribute name="d" type="xs:date"/>
       <xs:attribute name="u" type="xs:duration"/>
       <xs:attribute name="t" type="xs:dateTime"/>
      </xs:complexType>
     </xs:element>
    </xs:sequence></xs:complexType>
    <xs:key name="K"><xs:selector xpath="it"/><xs:field xpath="@k"/></xs:key>
    <xs:unique name="UD"><xs:selector xpath="it"/><xs:field xpath="@d"/></xs:unique>
    <xs:unique name="UU"><xs:selector xpath="it"/><xs:field xpath="@u"/><xs:field xpath="@t"/></xs:unique>
   </xs:element>
   <xs:element name="ref" minOccurs="0" maxOccurs="unbounded">
    <xs:complexType><xs:attribute name="to" type="xs:int" use="required"/></xs:complexType>
   </xs:element>
  </xs:sequence></xs:complexType>
  <xs:keyref name="R" refer="K"><xs:selector xpath="ref"/><xs:field xpath="@to"/></xs:keyref>
 </xs:element>
 <xs:element name="rr">
  <xs:complexType><xs:sequence>
   <xs:element name="blk" maxOccurs="unbounded">
    <xs:complexType><xs:sequence>
     <xs:element name="tab" minOccurs="0">
      <xs:complexType><xs:sequence><xs:element name="it" maxOccurs="unbounded">
        <xs:complexType><xs:attribute name="k" type="xs:int" use="required"/></xs:complexType></xs:element>
      </xs:sequence></xs:complexType>
      <xs:key name="KT"><xs:selector xpath="it"/><xs:field xpath="@k"/></xs:key>
     </xs:element>
     <xs:element name="ref" minOccurs="0" maxOccurs="unbounded">
      <xs:complexType><xs:attribute name="to" type="xs:int" use="required"/></xs:complexType>
     </xs:element>
    </xs:sequence>
    <xs:attribute name="id" type="xs:int" use="required"/><xs:attribute name="up" type="xs:int"/></xs:complexType>
    <xs:keyref name="RT" refer="KT"><xs:selector xpath="ref"/><xs:field xpath="@to"/></xs:keyref>
   </xs:element>
  </xs:sequence><xs:attribute name="id" type="xs:int" use="required"/></xs:complexType>
  <xs:key name="KS"><xs:selector xpath=".|blk"/><xs:field xpath="@id"/></xs:key>
  <xs:keyref name="RS" refer="KS"><xs:selector xpath="blk"/><xs:field xpath="@up"/></xs:keyref>
 </xs:element>
</xs:schema>'''}

    def _doc(self, secs, refs=()):
        out = [_decl(), '<r>\n']
        for sec in secs:
            out.append(' <sec>' + ''.join('<it' + ''.join(f' {k}="{v}"' for k, v in it.items()) + '/>' for it in sec)
                       + '</sec>\n')
        for t in refs:
            out.append(f' <ref to="{t}"/>\n')
        out.append('</r>\n')
        return ''.join(out)

    def docs(self, rng):
        D = self._doc
        return [
            Doc('if-valid-a', D([[{'k': 1, 'd': '2020-01-01', 'u': 'P1Y', 't': '2020-01-01T00:00:00Z'},
                                  {'k': 2, 'd': '2020-01-02', 'u': 'P1Y', 't': '2020-01-01T01:00:00Z'}]], [1, 2])),
            Doc('if-valid-noscope-norefs', D([], [])),
            Doc('if-valid-tz', D([[{'k': 1, 'd': '2020-01-01Z'}, {'k': 2, 'd': '2020-01-01+05:00'}]], [2])),
            Doc('if-dup-date', D([[{'k': 1, 'd': '2020-01-01'}, {'k': 2, 'd': '2020-01-01'}]]), 'fault:dup-unique'),
            Doc('if-dup-duration', D([[{'k': 1, 'u': 'P12M', 't': '2020-01-01T00:00:00'},
                                       {'k': 2, 'u': 'P1Y', 't': '2020-01-01T00:00:00'}]]), 'fault:dup-unique'),
            Doc('if-ref-noscope', D([], [1]), 'fault:keyref'),
            Doc('if-ref-dangling', D([[{'k': 1}]], [3]), 'fault:keyref'),
            Doc('if-hugeyear-field', D([[{'k': 1, 'd': '99999999999-01-01'}, {'k': 2, 'd': '2020-01-01'}]]), 'fault:lexical'),
            Doc('if-hugeduration-field', D([[{'k': 1, 'u': 'P99999999999999Y'}, {'k': 2, 'u': 'P1Y'}]]), 'fault:lexical'),
            Doc('if-baddate-field', D([[{'k': 1, 'd': '2020-02-30'}, {'k': 2, 'd': '2020-02-30'}]]), 'fault:lexical'),
            # a key on the root that selects the root itself, referred by the children; a key reference on a repeated
            # element whose key is declared on an optional descendant
            Doc('if-rr-valid', _decl() + '<rr id="1"><blk id="2" up="1"><tab><it k="1"/><it k="2"/></tab><ref to="2"/></blk>'
                '<blk id="3" up="2"/><blk id="4" up="1"><tab><it k="9"/></tab></blk></rr>'),
            Doc('if-rr-ref-before-tab', _decl() + '<rr id="1"><blk id="2"><ref to="5"/></blk><blk id="3"><tab><it k="5"/></tab>'
                '<ref to="5"/></blk></rr>', 'fault:keyref'),
            Doc('if-rr-ref-notab', _decl() + '<rr id="1"><blk id="2"><ref to="5"/></blk></rr>', 'fault:keyref'),
            Doc('if-rr-dup-root-id', _decl() + '<rr id="2"><blk id="2"/></rr>', 'fault:dup-key'),
            Doc('if-rr-up-dangling', _decl() + '<rr id="1"><blk id="2" up="9"/><blk id="3" up="3"/></rr>', 'fault:keyref'),
            Doc('if-rr-up-root-only', _decl() + '<rr id="7"><blk id="2" up="7"/><blk id="3" up="7"><ref to="1"/></blk></rr>',
                'fault:keyref'),
        ]


class Dtd(Family):
    """Documents with a DOCTYPE, processed through defused resources (used by the C18 'defused' programs only)."""
    name = 'dtd'
    versions = ('1.0',)
    defused = True

    def sources(self, version):
        return {'dtd.xsd': f'''<xs:schema {XS}>
 <xs:element name="doc"><xs:complexType><xs:sequence>
   <xs:element name="p" type="xs:string" maxOccurs="unbounded"/></xs:sequence></xs:complexType></xs:element>
</xs:schema>'''}

    def docs(self, rng):
        return [
            Doc('dtd-plain', _decl() + '<doc><p>a</p><p>b</p></doc>'),
            Doc('dtd-benign-doctype', _decl() + '<!DOCTYPE doc [<!ELEMENT note ANY>]>\n<doc><p>a</p></doc>'),
            Doc('dtd-entity', _decl() + '<!DOCTYPE doc [<!ENTITY x "expanded">]>\n<doc><p>&x;</p><p>b</p></doc>'),
            Doc('dtd-entity-unused', _decl() + '<!DOCTYPE doc [<!ENTITY x "expanded">]>\n<doc><p>c</p></doc>'),
            Doc('dtd-bad', _decl() + '<doc><q/></doc>', 'fault:structure'),
            Doc('dtd-big', _decl() + '<doc>' + '<p>text text text</p>' * 40 + '</doc>'),
        ]


class Chameleon(Family):
    """A chameleon document (no targetNamespace) included by a namespaced and by a no-namespace document."""
    name = 'chameleon'
    paths = ()
    extra = ('ct.xsd',)

    def sources(self, version):
        return {
            'nons.xsd': f'''<xs:schema {XS}>
 <xs:include schemaLocation="cham.xsd"/>
 <xs:element name="plain" type="Code"/>
</xs:schema>''',
            'ct.xsd': f'''<xs:schema {XS} targetNamespace="urn:c" xmlns:c="urn:c" elementFormDefault="qualified">
 <xs:include schemaLocation="cham.xsd"/>
 <xs:element name="named" type="c:Code"/>
</xs:schema>''',
            'cham.xsd': f'''<xs:schema {XS}>
 <xs:simpleType name="Code"><xs:restriction base="xs:string"><xs:pattern value="[A-Z][0-9]"/></xs:restriction></xs:simpleType>
 <xs:element name="item" type="Code"/>
</xs:schema>''',
        }

    def assemble(self, directory, cls, build=True, order=None):
        import os
        names = list(order) if order is not None else ['nons.xsd', 'ct.xsd']
        return cls([os.path.join(directory, n) for n in names], build=build)

    def docs(self, rng):
        return [
            Doc('ch-plain', _decl() + '<plain>A1</plain>'),
            Doc('ch-item', _decl() + '<item>B2</item>'),
            Doc('ch-named', _decl() + '<c:named xmlns:c="urn:c">C3</c:named>'),
            Doc('ch-named-item', _decl() + '<c:item xmlns:c="urn:c">D4</c:item>'),
            Doc('ch-bad-plain', _decl() + '<plain>a1</plain>', 'fault:lexical'),
            Doc('ch-bad-named', _decl() + '<c:named xmlns:c="urn:c">zz</c:named>', 'fault:lexical'),
        ]


class Big(Family):
    """Width-parameterised documents that cross the 16 KiB read size of iterparse."""
    name = 'big'
    paths = ('rec',)

    def sources(self, version):
        return {'big.xsd': f'''<xs:schema {XS}>
 <xs:element name="data">
  <xs:complexType><xs:sequence>
   <xs:element name="rec" maxOccurs="unbounded">
    <xs:complexType><xs:sequence>
      <xs:element name="f" type="xs:string" maxOccurs="unbounded"/>
     </xs:sequence><xs:attribute name="id" type="xs:ID" use="required"/>
     <xs:attribute name="k" type="xs:int" use="required"/>
     <xs:attribute name="next" type="xs:IDREF"/></xs:complexType>
   </xs:element>
  </xs:sequence></xs:complexType>
  <xs:key name="recK"><xs:selector xpath="rec"/><xs:field xpath="@k"/></xs:key>
 </xs:element>
</xs:schema>'''}

    def _doc(self, n, dup=None, dangling=False):
        out = [_decl(), '<data>\n']
        for i in range(n):
            k = i if dup is None or i != n - 1 else dup
            nxt = f' next="r{(i + 1) % n}"' if i % 3 == 0 else ''
            if dangling and i == 0:
                nxt = ' next="r_none"'
            out.append(f' <rec id="r{i}" k="{k}"{nxt}><f>field number {i} with some padding text</f><f>x</f></rec>\n')
        out.append('</data>\n')
        return ''.join(out)

    def docs(self, rng):
        return [
            Doc('big-valid-250', self._doc(250)),          # ~ 20 KiB
            Doc('big-dup-250', self._doc(250, dup=0), 'fault:dup-key'),
            Doc('big-dangling-250', self._doc(250, dangling=True), 'fault:dangling'),
            Doc('big-valid-30', self._doc(30)),
            Doc('big-valid-900', self._doc(900)),          # ~ 78 KiB: beyond the 64 KiB buffer of the defusable reader
            # exactly 256 validation errors (an exit status is 8 bits wide)
            Doc('big-256-errors', self._doc(256).replace(' k="', ' k="x'), 'fault:lexical'),
            # its neighbour in one command run: 256 + 1 errors
            Doc('big-1-error', self._doc(30).replace(' k="', ' k="x', 1), 'fault:lexical'),
        ]


# ---------------------------------------------------------------------------
class OnDemand(Family):
    """
    Namespaces that are loaded while a document is being validated: wildcard-matched content of
    well-known namespaces the library only has a fallback location for. The schema's uri_mapper
    relocates three of them to the pool's simulated peer (one document that validates foreign
    content, one that cannot be built, one location that does not exist); XLink keeps its packaged
    schema.
    """
    name = 'ondemand'
    paths = ('box',)
    assemblies = ('canonical', 'build_false')
    PEER = 'http://sim.test/od/'
    EXT = 'http://www.w3.org/2001/04/xmlenc#'           # -> ext.xsd on the peer
    BROKEN = 'http://www.w3.org/2009/xmldsig11#'        # -> broken.xsd on the peer (cannot be built)
    GONE = 'http://www.w3.org/2009/xmlenc11#'           # -> a page the peer does not have
    LATE = 'http://www.w3.org/2000/09/xmldsig#'         # -> late.xsd on the peer (fails in the last checks of the build)
    XLINK = 'http://www.w3.org/1999/xlink'

    def sources(self, version):
        return {'od.xsd': f"""<xs:schema {XS} targetNamespace="urn:od" xmlns:o="urn:od" elementFormDefault="qualified">
 <xs:element name="root">
  <xs:complexType><xs:sequence>
    <xs:element name="item" type="xs:int" minOccurs="0" maxOccurs="unbounded"/>
    <xs:element name="box" minOccurs="0" maxOccurs="unbounded"><xs:complexType><xs:sequence>
      <xs:any namespace="##other" processContents="strict" minOccurs="0" maxOccurs="unbounded"/>
    </xs:sequence><xs:anyAttribute namespace="##other" processContents="strict"/></xs:complexType></xs:element>
    <xs:any namespace="##other" processContents="lax" minOccurs="0" maxOccurs="unbounded"/>
  </xs:sequence><xs:anyAttribute namespace="##other" processContents="lax"/></xs:complexType>
 </xs:element>
 <xs:complexType name="base"><xs:sequence><xs:element name="k" type="xs:int"/></xs:sequence></xs:complexType>
 <xs:complexType name="ext"><xs:complexContent><xs:extension base="o:base"><xs:sequence>
   <xs:element name="x" type="xs:int"/></xs:sequence></xs:extension></xs:complexContent></xs:complexType>
 <xs:element name="mix">
  <xs:complexType><xs:sequence>
    <xs:any namespace="##other" processContents="lax" minOccurs="0"/>
    <xs:element name="rec" type="o:base" maxOccurs="unbounded"/>
  </xs:sequence></xs:complexType>
  <xs:key name="mk"><xs:selector xpath="o:rec"/><xs:field xpath="o:k"/></xs:key>
 </xs:element>
</xs:schema>"""}

    def peer_pages(self):
        return {
            self.PEER + 'ext.xsd': f"""<xs:schema {XS} targetNamespace="{self.EXT}" xmlns:e="{self.EXT}"
  elementFormDefault="qualified">
 <xs:element name="thing"><xs:complexType><xs:sequence>
   <xs:element name="n" type="xs:int" maxOccurs="unbounded"/>
  </xs:sequence><xs:attribute name="code" type="e:Code"/></xs:complexType>
  <xs:unique name="un"><xs:selector xpath="e:n"/><xs:field xpath="."/></xs:unique>
 </xs:element>
 <xs:element name="leaf" type="xs:date"/>
 <xs:attribute name="flag" type="xs:boolean"/>
 <xs:simpleType name="Code"><xs:restriction base="xs:string"><xs:pattern value="[A-Z]{{2}}[0-9]"/></xs:restriction></xs:simpleType>
</xs:schema>""".encode(),
            # passes the meta-schema and the component builds, rejected by the final model checks (UPA violation)
            self.PEER + 'late.xsd': f"""<xs:schema {XS} targetNamespace="{self.LATE}" xmlns:l="{self.LATE}"
  elementFormDefault="qualified">
 <xs:element name="sig"><xs:complexType><xs:sequence>
   <xs:element name="a" type="xs:int" minOccurs="0"/><xs:element name="a" type="xs:string"/>
  </xs:sequence></xs:complexType>
  <xs:unique name="lu"><xs:selector xpath="l:a"/><xs:field xpath="."/></xs:unique></xs:element>
</xs:schema>""".encode(),
            self.PEER + 'broken.xsd': f"""<xs:schema {XS} targetNamespace="{self.BROKEN}" xmlns:b="{self.BROKEN}">
 <xs:element name="e" type="b:Missing"/>
 <xs:element name="f" type="xs:int"/>
</xs:schema>""".encode(),
        }

    def uri_mapper(self):
        from xmlschema.locations import FALLBACK_LOCATIONS
        return {FALLBACK_LOCATIONS[self.EXT]: self.PEER + 'ext.xsd',
                FALLBACK_LOCATIONS[self.BROKEN]: self.PEER + 'broken.xsd',
                FALLBACK_LOCATIONS[self.GONE]: self.PEER + 'gone.xsd',
                FALLBACK_LOCATIONS[self.LATE]: self.PEER + 'late.xsd'}

    def assemble(self, directory, cls, build=True, order=None):
        import os
        return cls(os.path.join(directory, 'od.xsd'), build=build, uri_mapper=self.uri_mapper())

    def _mix(self, foreign, recs):
        ns = (f'xmlns:o="urn:od" xmlns:e="{self.EXT}" xmlns:l="{self.LATE}" xmlns:xlink="{self.XLINK}" '
              'xmlns:xsi="http://www.w3.org/2001/XMLSchema-instance"')
        body = ''.join(f'<o:rec{a}><o:k>{k}</o:k>' + ('<o:x>1</o:x>' if a else '') + '</o:rec>' for a, k in recs)
        return _decl() + f'<o:mix {ns}>{foreign}{body}</o:mix>\n'

    def _doc(self, body='', rootattr='', items=(1,)):
        s = _decl() + (f'<o:root xmlns:o="urn:od" xmlns:e="{self.EXT}" xmlns:b="{self.BROKEN}" xmlns:g="{self.GONE}" '
                       f'xmlns:l="{self.LATE}" xmlns:xsi="http://www.w3.org/2001/XMLSchema-instance" '
                       f'xmlns:xlink="{self.XLINK}"{rootattr}>\n')
        s += ''.join(f' <o:item>{i}</o:item>\n' for i in items)
        return s + body + '</o:root>\n'

    def docs(self, rng):
        D = self._doc
        thing = '<e:thing code="AB1"><e:n>1</e:n><e:n>2</e:n></e:thing>'
        return [
            Doc('od-valid-plain', D()),
            Doc('od-valid-plain-many', D(items=range(8))),
            Doc('od-plain-baditem', D(items=('x',)), 'fault:lexical'),
            Doc('od-valid-ext-lax', D(f' {thing}\n <e:leaf>2020-02-02</e:leaf>\n')),
            Doc('od-valid-ext-strict', D(f' <o:box e:flag="true">{thing}</o:box>\n')),
            Doc('od-ext-lax-badcode', D(' <e:thing code="ab"><e:n>1</e:n></e:thing>\n'), 'fault:lexical'),
            Doc('od-ext-lax-dup', D(' <e:thing><e:n>7</e:n><e:n>7</e:n></e:thing>\n'), 'fault:identity'),
            Doc('od-ext-strict-badleaf', D(' <o:box><e:leaf>yesterday</e:leaf></o:box>\n'), 'fault:lexical'),
            Doc('od-ext-strict-unknown', D(' <o:box><e:nothing/></o:box>\n'), 'fault:wildcard'),
            Doc('od-ext-badflag', D(rootattr=' e:flag="maybe"'), 'fault:lexical'),
            Doc('od-ext-strict-badflag', D(' <o:box e:flag="2"/>\n'), 'fault:lexical'),
            Doc('od-valid-broken-lax', D(' <b:f>not checked</b:f>\n <b:e/>\n')),
            Doc('od-broken-strict', D(' <o:box><b:f>1</b:f></o:box>\n'), 'fault:wildcard'),
            Doc('od-valid-gone-lax', D(' <g:x>1</g:x>\n', rootattr=' g:a="1"')),
            Doc('od-gone-strict', D(' <o:box g:a="1"/>\n'), 'fault:wildcard'),
            Doc('od-valid-xlink', D(' <o:box xlink:type="simple" xlink:href="http://x.test/"/>\n',
                                    rootattr=' xlink:type="simple"')),
            Doc('od-xlink-badtype', D(' <o:box xlink:type="bogus"/>\n'), 'fault:lexical'),
            Doc('od-xlink-lax-badtype', D(rootattr=' xlink:type="bogus"'), 'fault:lexical'),
            # a typed record after foreign content: the namespace is loaded in the middle of the document
            Doc('od-mix-plain', self._mix('', [('', 1), ('', 2)])),
            Doc('od-mix-typed', self._mix('', [(' xsi:type="o:ext"', 1), ('', 2)]), prefix_dep=True),
            Doc('od-mix-typed-dup', self._mix('', [(' xsi:type="o:ext"', 1), (' xsi:type="o:ext"', 1)]), 'fault:dup-key', True),
            Doc('od-mix-foreign-then-typed', self._mix('<xlink:title>t</xlink:title>', [(' xsi:type="o:ext"', 1), ('', 2)]),
                prefix_dep=True, tag='namespace-loaded-mid-document'),
            Doc('od-mix-ext-then-typed', self._mix('<e:leaf>2020-02-02</e:leaf>', [(' xsi:type="o:ext"', 3)]),
                prefix_dep=True, tag='namespace-loaded-mid-document'),
            Doc('od-mix-late-then-typed', self._mix('<l:sig><l:a>x</l:a></l:sig>', [(' xsi:type="o:ext"', 3)]), prefix_dep=True),
            Doc('od-valid-late-lax', D(' <l:sig><l:a>1</l:a></l:sig>\n')),
            # a hint below the root for the namespace whose schema cannot be built (followed only with use_location_hints)
            Doc('od-hint-broken', D(f' <o:box xsi:schemaLocation="{self.BROKEN} {self.PEER}broken.xsd"><b:f>1</b:f></o:box>\n'),
                'fault:wildcard'),
            Doc('od-hint-late', D(f' <l:sig xsi:schemaLocation="{self.LATE} {self.PEER}late.xsd"><l:a>1</l:a></l:sig>\n')),
            # the root itself belongs to an on-demand namespace: nothing matches it through a wildcard
            Doc('od-root-ext', f'<e:thing xmlns:e="{self.EXT}" code="zz"><e:n>1</e:n></e:thing>', 'fault:root'),
            Doc('od-valid-mixed-order', D(f' <o:box xlink:type="simple">{thing}</o:box>\n <g:x/>\n <b:f>z</b:f>\n {thing}\n')),
        ]


# ---------------------------------------------------------------------------
class Simple(Family):
    """Values of many simple types in one document (targets of lexical mutations), XSD 1.1: type
    alternatives and an assertion whose XPath does arithmetic and date casts on attribute values."""
    name = 'simple'
    paths = ('lst',)

    def sources(self, version):
        alt = ''
        if version == '1.1':
            alt = """
   <xs:element name="alt" type="BaseAlt" minOccurs="0" maxOccurs="unbounded">
    <xs:alternative test="xs:integer(@a) idiv xs:integer(@b) = 1" type="AltOne"/>
    <xs:alternative test="xs:date(@d) lt xs:date('2020-06-01')" type="AltEarly"/>
   </xs:element>"""
        types11 = ''
        if version == '1.1':
            types11 = """
 <xs:complexType name="BaseAlt"><xs:attribute name="a" type="xs:string"/><xs:attribute name="b" type="xs:string"/>
  <xs:attribute name="d" type="xs:string"/><xs:attribute name="m" type="AsInt"/></xs:complexType>
 <xs:simpleType name="AsInt"><xs:restriction base="xs:integer"><xs:assertion test="$value idiv 3 ge 0"/></xs:restriction>
  </xs:simpleType>
 <xs:complexType name="AltOne"><xs:complexContent><xs:extension base="BaseAlt"><xs:attribute name="one" type="xs:int"/>
  </xs:extension></xs:complexContent></xs:complexType>
 <xs:complexType name="AltEarly"><xs:complexContent><xs:extension base="BaseAlt">
  <xs:assert test="xs:integer(@a) + 1 gt 0"/><xs:assert test="xs:integer(@a) ge 0.5e0"/></xs:extension></xs:complexContent></xs:complexType>"""
        return {'simple.xsd': f"""<xs:schema {XS} xmlns:f="urn:f">
 <xs:simpleType name="En"><xs:restriction base="xs:integer"><xs:enumeration value="1"/><xs:enumeration value="2"/>
  <xs:enumeration value="3"/></xs:restriction></xs:simpleType>
 <xs:simpleType name="Den"><xs:restriction base="xs:decimal"><xs:enumeration value="1.5"/><xs:enumeration value="2.5"/>
  </xs:restriction></xs:simpleType>
 <xs:simpleType name="Fen"><xs:restriction base="xs:double"><xs:enumeration value="1"/><xs:enumeration value="NaN"/>
  </xs:restriction></xs:simpleType>
 <xs:simpleType name="Td"><xs:restriction base="xs:decimal"><xs:totalDigits value="5"/><xs:fractionDigits value="2"/>
  </xs:restriction></xs:simpleType>
 <xs:simpleType name="Ints"><xs:list itemType="xs:int"/></xs:simpleType>
 <xs:simpleType name="Un"><xs:union memberTypes="xs:int xs:date"/></xs:simpleType>
 <xs:simpleType name="Un2"><xs:union memberTypes="xs:int xs:token"/></xs:simpleType>
 <xs:simpleType name="IntOrInts"><xs:union memberTypes="xs:int Ints"/></xs:simpleType>
 <xs:simpleType name="EnU"><xs:restriction base="IntOrInts"><xs:enumeration value="1"/><xs:enumeration value="2"/>
  </xs:restriction></xs:simpleType>
 <xs:simpleType name="EnL"><xs:restriction base="IntOrInts"><xs:enumeration value="1"/><xs:enumeration value="2 3"/>
  </xs:restriction></xs:simpleType>
 <xs:simpleType name="Dates"><xs:list itemType="xs:date"/></xs:simpleType>
 <xs:simpleType name="TwoDates"><xs:restriction base="Dates"><xs:enumeration value="2020-01-01 2020-01-02"/>
  <xs:enumeration value="2021-05-05"/></xs:restriction></xs:simpleType>
 <xs:simpleType name="QNs"><xs:list itemType="xs:QName"/></xs:simpleType>
 <xs:simpleType name="TwoQNs"><xs:restriction base="QNs"><xs:enumeration value="f:a f:b"/></xs:restriction></xs:simpleType>{types11}
 <xs:element name="root">
  <xs:complexType><xs:sequence>
   <xs:element name="en" type="En"/><xs:element name="den" type="Den"/><xs:element name="fen" type="Fen"/>
   <xs:element name="dt" type="xs:date"/><xs:element name="gy" type="xs:gYear"/><xs:element name="du" type="xs:duration"/>
   <xs:element name="tm" type="xs:time"/><xs:element name="fl" type="xs:float"/><xs:element name="td" type="Td"/>
   <xs:element name="lst" type="Ints"/><xs:element name="un" type="Un" maxOccurs="2"/>
   <xs:element name="qn" type="xs:QName"/><xs:element name="hx" type="xs:hexBinary"/>
   <xs:element name="bo" type="xs:boolean"/>
   <xs:element name="tok" type="xs:token" minOccurs="0"/><xs:element name="lang" type="xs:language" minOccurs="0"/>
   <xs:element name="un2" type="Un2" minOccurs="0" maxOccurs="unbounded"/>
   <xs:element name="enu" type="EnU" minOccurs="0" maxOccurs="unbounded"/>
   <xs:element name="enl" type="EnL" minOccurs="0" maxOccurs="unbounded"/>
   <xs:element name="dl" type="TwoDates" minOccurs="0" maxOccurs="unbounded"/>
   <xs:element name="ql" type="TwoQNs" minOccurs="0" maxOccurs="unbounded"/>{alt}
  </xs:sequence><xs:attribute name="n" type="xs:positiveInteger"/><xs:attribute name="tl" type="Triple"/></xs:complexType>
 </xs:element>
 <xs:simpleType name="Triple"><xs:restriction base="Ints"><xs:length value="3"/></xs:restriction></xs:simpleType>
</xs:schema>"""}

    def _doc(self, version_alt='', en='1', lst='1 2 3', un2='2020-02-02'):
        return (_decl() + f'<root xmlns:f="urn:f" n="1" tl="1 2 3"><en>{en}</en><den>1.5</den><fen>1</fen><dt>2020-01-31</dt><gy>2020</gy>'
                f'<du>P1Y</du><tm>00:00:00Z</tm><fl>1.5</fl><td>1.5</td><lst>{lst}</lst><un>1</un><un>{un2}</un>'
                f'<qn>f:name</qn><hx>0A1B</hx><bo>true</bo>{version_alt}</root>\n')

    def docs(self, rng):
        alts = '<alt a="1" b="1" d="2020-01-01"/><alt a="2" b="1" d="2020-12-01" m="1"/><alt a="5" b="5" one="1"/>'
        docs = [
            Doc('si-valid', self._doc()),
            Doc('si-valid-alt', self._doc(alts), kind='valid11'),
            Doc('si-bad-enum', self._doc(en='7'), 'fault:lexical'),
            Doc('si-bad-list', self._doc(lst='1 x 3'), 'fault:lexical'),
            Doc('si-bad-union', self._doc(un2='neither'), 'fault:lexical'),
            # values of collapse / replace types with padding (what is decoded must not depend on the mode)
            Doc('si-valid-padded', self._doc('<tok>\n   a   b\n  </tok><lang> en </lang>')),
            # a union whose members' lexical spaces overlap: text first, numbers later
            Doc('si-valid-un2-text', self._doc('<un2>abc</un2><un2>x y</un2>')),
            Doc('si-valid-un2-num', self._doc('<un2>7</un2><un2>07</un2><un2>abc</un2><un2>+7</un2>')),
            # an enumeration over a union with a list member: the decoded value may be a list
            Doc('si-valid-enu', self._doc('<enu>1</enu><enu>2</enu><enl>1</enl><enl>2 3</enl>'), tag='union-with-list-member'),
            Doc('si-bad-enu', self._doc('<enu>2 3</enu><enu>4</enu><enl>3 2</enl><enl>4</enl>'), 'fault:lexical',
                tag='union-with-list-member'),
            # facets of a restricted LIST are checked on typed items, whatever the decoder turns the items into
            Doc('si-valid-datelist', self._doc('<dl>2020-01-01 2020-01-02</dl><dl>2021-05-05</dl><dl> 2020-01-01\n2020-01-02 </dl>'
                                              '<ql>f:a f:b</ql>')),
            Doc('si-bad-datelist', self._doc('<dl>2020-01-01 2020-01-03</dl><ql>f:a f:c</ql>'), 'fault:lexical'),
        ]
        for d in docs:
            d.prefix_dep = True      # <qn> holds a QName
        return docs


# ---------------------------------------------------------------------------
class Grouped(Family):
    """A named model group holding a local element with an identity constraint, referenced twice by
    the root model: two same-named local declarations under one parent."""
    name = 'grouped'
    paths = ('l1', 'l1/v')

    def sources(self, version):
        return {'grouped.xsd': f"""<xs:schema {XS}>
 <xs:group name="g"><xs:sequence>
   <xs:element name="l1"><xs:complexType><xs:sequence><xs:element name="v" type="xs:string" maxOccurs="unbounded"/>
    </xs:sequence></xs:complexType><xs:unique name="u"><xs:selector xpath="v"/><xs:field xpath="."/></xs:unique></xs:element>
 </xs:sequence></xs:group>
 <xs:element name="r"><xs:complexType><xs:sequence>
   <xs:group ref="g"/><xs:element name="mid" type="xs:int"/><xs:group ref="g"/>
 </xs:sequence></xs:complexType></xs:element>
</xs:schema>"""}

    def docs(self, rng):
        return [
            Doc('gr-valid', _decl() + '<r><l1><v>a</v><v>b</v></l1><mid>1</mid><l1><v>a</v></l1></r>'),
            Doc('gr-dup-first', _decl() + '<r><l1><v>a</v><v>a</v></l1><mid>1</mid><l1><v>b</v></l1></r>', 'fault:dup-unique'),
            Doc('gr-dup-second', _decl() + '<r><l1><v>a</v></l1><mid>1</mid><l1><v>b</v><v>b</v></l1></r>', 'fault:dup-unique'),
            Doc('gr-bad-mid', _decl() + '<r><l1><v>a</v></l1><mid>x</mid><l1><v>b</v></l1></r>', 'fault:lexical'),
            # the only fault is character data AFTER a child of the root (the tail of a streamed chunk), in element-only content
            Doc('gr-stray-tail', _decl() + '<r><l1><v>a</v></l1>stray<mid>1</mid><l1><v>b</v></l1></r>', 'fault:structure'),
            Doc('gr-stray-last-tail', _decl() + '<r><l1><v>a</v></l1><mid>1</mid><l1><v>b</v></l1> stray </r>', 'fault:structure'),
            Doc('gr-stray-head', _decl() + '<r>stray<l1><v>a</v></l1><mid>1</mid><l1><v>b</v></l1></r>', 'fault:structure'),
            Doc('gr-stray-deep-tail', _decl() + '<r><l1><v>a</v>stray<v>b</v></l1><mid>1</mid><l1><v>c</v></l1></r>', 'fault:structure'),
        ]


class LaxBuilt(Family):
    """A schema with definition errors, built with validation='lax': what is left unresolved (a key
    reference to a key that does not exist, an unknown type, an unknown base) must still validate."""
    name = 'laxbuilt'
    paths = ('i',)
    assemblies = ('canonical',)

    def sources(self, version):
        return {'laxbuilt.xsd': f"""<xs:schema {XS}>
 <xs:element name="r"><xs:complexType><xs:sequence>
   <xs:element name="i" type="xs:string" maxOccurs="unbounded"/>
   <xs:element name="u" type="NoSuchType" minOccurs="0"/>
   <xs:element name="d" minOccurs="0"><xs:simpleType><xs:restriction base="NoSuchBase"><xs:maxLength value="2"/>
    </xs:restriction></xs:simpleType></xs:element>
  </xs:sequence><xs:attribute ref="noSuchAttr"/></xs:complexType>
  <xs:keyref name="kr" refer="nokey"><xs:selector xpath="i"/><xs:field xpath="."/></xs:keyref>
  <xs:key name="k"><xs:selector xpath="i"/><xs:field xpath="@nope | ."/></xs:key>
 </xs:element>
</xs:schema>"""}

    def assemble(self, directory, cls, build=True, order=None):
        import os
        return cls(os.path.join(directory, 'laxbuilt.xsd'), build=build, validation='lax')

    def docs(self, rng):
        return [
            Doc('lb-plain', _decl() + '<r><i>a</i><i>b</i></r>', 'lax:unknown'),
            Doc('lb-dup', _decl() + '<r><i>a</i><i>a</i></r>', 'lax:unknown'),
            Doc('lb-unknown-type', _decl() + '<r><i>a</i><u>x</u><d>abc</d></r>', 'lax:unknown'),
        ]


# ---------------------------------------------------------------------------
class DeepKey(Family):
    """A root-level key whose selector reaches descendants below the lazy depth and whose field is a
    child element that is NOT the first child: what the selector sees depends on how much of a
    later subtree the parser has already built when an earlier one is validated."""
    name = 'deepkey'
    paths = ('item',)

    def sources(self, version):
        return {'deepkey.xsd': f"""<xs:schema {XS}>
 <xs:element name="root"><xs:complexType><xs:sequence>
   <xs:element name="item" maxOccurs="unbounded"><xs:complexType><xs:sequence>
     <xs:element name="entry" maxOccurs="unbounded"><xs:complexType><xs:sequence>
       <xs:element name="pad" type="xs:string"/><xs:element name="name" type="xs:string"/>
       <xs:element name="ref" type="xs:string" minOccurs="0"/>
     </xs:sequence></xs:complexType></xs:element>
   </xs:sequence></xs:complexType></xs:element>
  </xs:sequence></xs:complexType>
  <xs:key name="k"><xs:selector xpath=".//entry"/><xs:field xpath="name"/></xs:key>
  <xs:keyref name="kr" refer="k"><xs:selector xpath="item/entry"/><xs:field xpath="ref"/></xs:keyref>
 </xs:element>
</xs:schema>"""}

    def _doc(self, names, pad=10, refs=None):
        refs = refs or {}
        body = ''.join(f'<item><entry><pad>{"x" * pad}</pad><name>{n}</name>'
                       + (f'<ref>{refs[i]}</ref>' if i in refs else '') + '</entry></item>' for i, n in enumerate(names))
        return _decl() + '<root>' + body + '</root>\n'

    def docs(self, rng):
        return [
            Doc('dk-valid-6', self._doc([f'n{i}' for i in range(6)])),
            Doc('dk-valid-40', self._doc([f'n{i}' for i in range(40)], pad=3, refs={5: 'n30', 39: 'n0'})),
            Doc('dk-valid-pad', self._doc([f'n{i}' for i in range(4)], pad=120)),
            Doc('dk-dup', self._doc(['a', 'b', 'c', 'b', 'd']), 'fault:dup-key'),
            Doc('dk-dangling', self._doc(['a', 'b', 'c'], refs={1: 'zz'}), 'fault:keyref'),
        ]


def double_fault(doc, rng, order='model-first'):
    """A model violation (unexpected child of the root) and a content error in another sibling, in either
    document order. Works on the one-root-child-per-line layout of the generated documents."""
    import re
    try:
        text = doc.data.decode('utf-8')
    except UnicodeDecodeError:
        return None
    lines = text.split('\n')
    kids = [i for i, ln in enumerate(lines) if ln.startswith(' <') and not ln.startswith(' </')]
    if len(kids) < 2:
        return None
    i, j = sorted(rng.sample(kids, 2))
    if order == 'content-first':
        i, j = j, i
    m = re.search(r'(?:="|>)[^"<>]*?(\d)', lines[j])
    if not m:
        return None
    lines[j] = lines[j][:m.start(1)] + '!' + lines[j][m.start(1):]
    lines[i] = ' <bogus/>\n' + lines[i]
    return Doc(doc.name + '+double-' + order, '\n'.join(lines), 'fault:double', doc.prefix_dep, tag=doc.tag)


def with_double_faults(docs, rng, n=4):
    out = list(docs)
    valid = [d for d in docs if d.kind == 'valid']
    for d in valid[:n]:
        for order in ('model-first', 'content-first'):
            x = double_fault(d, rng, order)
            if x is not None:
                out.append(x)
    return out


class VCond(Family):
    """Conditional inclusion (vc:typeAvailable / vc:typeUnavailable / vc:minVersion): what a declaration document
    contributes is decided WHILE it is loaded, against the components known at that moment."""
    name = 'vcond'
    paths = ('a',)

    def sources(self, version):
        return {'vcond.xsd': f'''<xs:schema {XS} xmlns:vc="http://www.w3.org/2007/XMLSchema-versioning">
 <xs:element name="r">
  <xs:complexType><xs:sequence>
   <xs:element name="a" type="xs:int" vc:typeAvailable="xs:int" maxOccurs="unbounded"/>
   <xs:element name="b" type="xs:string" vc:typeUnavailable="xs:int" minOccurs="0"/>
   <xs:element name="c" type="xs:date" vc:typeAvailable="xs:noSuchType" minOccurs="0"/>
   <xs:element name="d" type="xs:string" vc:typeUnavailable="xs:noSuchType xs:alsoNone" minOccurs="0"/>
   <xs:element name="e" type="xs:string" vc:minVersion="1.1" minOccurs="0"/>
  </xs:sequence></xs:complexType>
 </xs:element>
 <xs:element name="only-with-int" type="xs:int" vc:typeAvailable="xs:int xs:string"/>
 <xs:element name="never" type="xs:int" vc:typeAvailable="xs:int xs:noSuchType"/>
</xs:schema>'''}

    def docs(self, rng):
        return [
            Doc('vc-valid', _decl() + '<r><a>1</a><a>2</a><d>x</d></r>'),
            Doc('vc-bad-a', _decl() + '<r><a>one</a></r>', 'fault:lexical'),
            Doc('vc-excluded-b', _decl() + '<r><a>1</a><b>x</b></r>', 'fault:structure'),
            Doc('vc-excluded-c', _decl() + '<r><a>1</a><c>2020-01-01</c></r>', 'fault:structure'),
            Doc('vc-version-e', _decl() + '<r><a>1</a><e>x</e></r>', kind='valid11'),
            Doc('vc-global', _decl() + '<only-with-int>5</only-with-int>'),
            Doc('vc-global-never', _decl() + '<never>5</never>', 'fault:structure'),
        ]


class RedefChain(Family):
    """Chained redefinitions: main includes top, top redefines mid, mid redefines base. The order in which the
    documents are registered decides which redefinition of T wins."""
    name = 'redefchain'
    paths = ()

    def sources(self, version):
        H = f'<xs:schema {XS}>'
        return {
            'main.xsd': H + '<xs:include schemaLocation="top.xsd"/><xs:element name="other" type="T"/></xs:schema>',
            'top.xsd': H + '''<xs:redefine schemaLocation="mid.xsd">
  <xs:simpleType name="T"><xs:restriction base="T"><xs:maxLength value="3"/></xs:restriction></xs:simpleType>
 </xs:redefine></xs:schema>''',
            'mid.xsd': H + '''<xs:redefine schemaLocation="base.xsd">
  <xs:simpleType name="T"><xs:restriction base="T"><xs:maxLength value="6"/></xs:restriction></xs:simpleType>
 </xs:redefine></xs:schema>''',
            'base.xsd': H + '''<xs:simpleType name="T"><xs:restriction base="xs:string"><xs:maxLength value="10"/></xs:restriction>
 </xs:simpleType><xs:element name="root" type="T"/></xs:schema>''',
        }

    def docs(self, rng):
        return [Doc('rc-len%d' % n, _decl() + '<root>%s</root>' % ('a' * n), 'valid' if n <= 3 else 'fault:lexical')
                for n in (2, 3, 4, 6, 7, 10, 11)] + [Doc('rc-other', _decl() + '<other>abcd</other>', 'fault:lexical')]


class OddNs(Family):
    """A target namespace that is no XPath name (it starts with a digit): lookups that spell a declaration's name in an
    XPath expression cannot find it."""
    name = 'oddns'
    paths = ()

    def sources(self, version):
        return {'oddns.xsd': f'''<xs:schema {XS} targetNamespace="1urn" xmlns:o="1urn" elementFormDefault="qualified">
 <xs:element name="root"><xs:complexType><xs:sequence>
   <xs:element name="a" type="xs:int" maxOccurs="unbounded"/></xs:sequence></xs:complexType>
  <xs:unique name="ua"><xs:selector xpath="o:a"/><xs:field xpath="."/></xs:unique>
 </xs:element>
</xs:schema>'''}

    def docs(self, rng):
        return [
            Doc('on-valid', _decl() + '<root xmlns="1urn"><a>1</a><a>2</a></root>', tag='namespace-no-xpath-name'),
            Doc('on-bad', _decl() + '<root xmlns="1urn"><a>1</a><a>x</a></root>', 'fault:lexical', tag='namespace-no-xpath-name'),
            Doc('on-dup', _decl() + '<root xmlns="1urn"><a>1</a><a>1</a></root>', 'fault:dup-unique', tag='namespace-no-xpath-name'),
        ]


FAMILIES = {f.name: f for f in (VCond(), RedefChain(), OddNs(), Ids(), Keys(), XsiType(), Subst(), Fixed(), Wild(), Ns(), Mixed(),
                                Assert11(), Recur(), Multi(), Multi2(), Shadow(), IdFields(), Dtd(), Chameleon(), Big(), OnDemand(), Simple(), Grouped(), LaxBuilt(), DeepKey())}
