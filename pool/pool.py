"""Builds the schema/document pool in the template process."""
import atexit
import os
import shutil

from sim.core import sub_rng, HarnessError
from pool.families import FAMILIES, Doc

_scratch = None


def scratch_dir():
    """Per-process-tree scratch directory outside /repo and /verif, removed at exit."""
    global _scratch
    if _scratch is None:
        base = '/dev/shm' if os.path.isdir('/dev/shm') else '/tmp'
        _scratch = os.path.join(base, f'xmlschema-verif-{os.getpid()}')
        shutil.rmtree(_scratch, ignore_errors=True)
        os.makedirs(_scratch)
        owner = os.getpid()

        def _cleanup():
            if os.getpid() == owner:
                shutil.rmtree(_scratch, ignore_errors=True)
        atexit.register(_cleanup)
    return _scratch


class Entry:
    """One (family, version): built schema + documents."""
    def __init__(self, family, version, schema, main_path, docs):
        self.family = family
        self.version = version
        self.schema = schema
        self.main_path = main_path
        self.docs = docs
        self.key = f'{family.name}/{version}'


def schema_class(version):
    import xmlschema
    return xmlschema.XMLSchema11 if version == '1.1' else xmlschema.XMLSchema10


def write_sources(family, version, subdir=None):
    d = os.path.join(scratch_dir(), subdir or f'{family.name}-{version}')
    os.makedirs(d, exist_ok=True)
    srcs = family.sources(version)
    for name, text in srcs.items():
        with open(os.path.join(d, name), 'w', encoding='utf-8') as fp:
            fp.write(text)
    return os.path.join(d, next(iter(srcs)))


POOL_PEER = None


def install_pool_peer():
    """
    The simulated peer behind the pool's remote location hints (families with peer_pages()): installed as the
    process-wide urllib opener in the template, inherited by every forked run. Local files keep going through the
    stock FileHandler. Fault queues (SimPeer.inject) are set by the executor around single operations.
    """
    global POOL_PEER
    from sim.simio import SimPeer
    pages = {}
    for fam in FAMILIES.values():
        if hasattr(fam, 'peer_pages'):
            pages.update(fam.peer_pages())
    POOL_PEER = SimPeer(pages)
    POOL_PEER.install()
    return POOL_PEER


def build_pool(master_seed, names=None, versions=('1.0', '1.1'), build=True, corpus=False):
    entries = {}
    install_pool_peer()
    # the shadow family's <bag> pairs a local declaration with a wildcard on purpose: the library says so at build time
    import warnings
    warnings.filterwarnings('ignore', message='Maybe a not equivalent type table')
    for name in names or FAMILIES:
        fam = FAMILIES[name]
        for version in versions:
            if version not in fam.versions:
                continue
            main = write_sources(fam, version)
            schema = fam.assemble(os.path.dirname(main), schema_class(version), build=build)
            docs = fam.docs(sub_rng(master_seed, 'pool', name))
            if name in ('ids', 'keys', 'subst', 'mixed', 'big', 'assert11', 'wild', 'multi'):
                from pool.families import with_double_faults
                docs = with_double_faults(docs, sub_rng(master_seed, 'double', name))
            entries[f'{name}/{version}'] = Entry(fam, version, schema, main, docs)
    if corpus:
        from pool.corpus import corpus_entries
        for e in corpus_entries(versions):
            entries[e.key] = e
    return entries


def _is_valid(arg):
    entry, doc = arg
    try:
        return entry.schema.is_valid(doc.data)
    except Exception as exc:
        return f'raise {type(exc).__name__}: {exc}'


def sanity_check(entries):
    """
    Valid documents must be valid on the pristine eager reference (each evaluated in its own
    forked child). Fault documents that are not rejected are returned (reported, not fatal:
    their label is only a workload annotation).
    """
    from sim.core import parallel_map
    items = [(e, d) for e in entries.values() for d in e.docs]
    res = parallel_map(_is_valid, items)
    # the labels are workload annotations only: a 'valid' document the tree under test rejects (or crashes on)
    # is reported, never fatal - the checks' own oracles decide what that means for their property
    bad = [(e.key, d.name, str(r)[:120]) for (e, d), r in zip(items, res) if d.kind == 'valid' and r is not True]
    global LAST_VALID_REJECTED
    LAST_VALID_REJECTED = bad
    return [(e.key, d.name, r) for (e, d), r in zip(items, res) if d.kind != 'valid' and r is True]


LAST_VALID_REJECTED = []
