#!/bin/bash
# tools_sweep.sh <first-seed> <last-seed> [tier]: every check under every seed; prints one line per run
cd "$(dirname "$0")"
tier=${3:-quick}
for s in $(seq $1 $2); do
  for p in C04 C06 C09 C10 C11 C12 C13 C18; do
    out=$(VERIF_SEED=$s VERIF_SKIP_SELFTEST=1 ./check $p --tier $tier 2>&1); rc=$?
    echo "seed=$s $p rc=$rc viol=$(echo "$out" | grep -c '^VIOLATION') $(echo "$out" | grep 'HARNESS-ERROR' | head -1 | cut -c1-160)"
    if [ $rc -ne 0 ]; then echo "$out" | grep -v '^KNOWN' | tail -4 | cut -c1-900; fi
  done
done
