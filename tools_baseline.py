#!/venv/bin/python
"""Run the repository's test suite (guard off) and compare with BASELINE.json's stable_pass set."""
import json, subprocess, sys, os, tempfile
import xml.etree.ElementTree as ET
base = json.load(open('/root/.vp/BASELINE.json'))
out = tempfile.mktemp(suffix='.xml', dir='/dev/shm')
env = dict(os.environ); env.pop('XMLSCHEMA_VERIF', None)
subprocess.run(['/venv/bin/python', '-m', 'pytest', '-q', '-p', 'no:cacheprovider', '--timeout=900',
                '--continue-on-collection-errors', f'--junitxml={out}'], cwd='/repo', env=env,
               stdout=subprocess.DEVNULL, stderr=subprocess.DEVNULL)
passed = set()
for tc in ET.parse(out).getroot().iter('testcase'):
    if not any(c.tag in ('failure', 'error', 'skipped') for c in tc):
        passed.add(f"{tc.get('classname')}::{tc.get('name')}")
os.unlink(out)
missing = [t for t in base['stable_pass'] if t not in passed]
print(f"stable_pass={len(base['stable_pass'])} passed_now={len(passed)} missing={len(missing)}")
for m in missing[:20]:
    print('  MISSING', m)
sys.exit(1 if missing else 0)
