#!/bin/bash
# tools_thorough.sh <seed> <check>...: the thorough tier of the named checks under one seed; one line per run
cd "$(dirname "$0")"
s=$1; shift
for p in "$@"; do
  t0=$(date +%s)
  out=$(VERIF_SEED=$s ./check $p --tier thorough 2>&1); rc=$?
  echo "seed=$s $p thorough rc=$rc viol=$(echo "$out" | grep -c '^VIOLATION') secs=$(( $(date +%s) - t0 )) $(echo "$out" | grep 'runs=' | cut -c1-140)"
  if [ $rc -ne 0 ]; then echo "$out" | grep -v '^KNOWN' | tail -6 | cut -c1-1200; fi
done
