#!/venv/bin/python
"""Regenerates MANIFEST.json from manifest_checks.py (kept in one place so it stays valid)."""
import json
import os
HERE = os.path.dirname(os.path.abspath(__file__))

NA = {
 'C01': 'content-model membership is a pure function of (model, child sequence): no schedule, clock, fault or history for a simulator to own',
 'C02': 'simple-type validation/decoding is a pure function of (type, text, options)',
 'C03': 'attribute-set validation is a pure function of (declarations, wildcard, attribute set, options)',
 'C05': 'decode/encode round-trip and encoder soundness are pure functions of (schema, data, converter)',
 'C07': 'xsi:type / substitution / nil rules are a pure function of (type graph, flags, instance)',
 'C08': 'identity-constraint verdicts are a pure function of the document; their interaction with streamed loading is decided under C06',
 'C14': 'restriction soundness compares two languages defined by the schema text alone',
 'C15': 'UPA/EDC determinism is a property of one content model automaton (pure function)',
 'C16': 'wildcard set algebra is a finite pure function',
 'C17': 'prefix mapping is a pure push/pop function of document nesting; parser-side capture under pruning is covered by C06',
 'C19': 'error localisation is a pure function of (schema, document); lazy paths are logged under C06, nothing claimed',
 'C20': 'schema-path/instance-path correspondence is a pure function; path= on lazy resources is one of the C06 APIs',
}

CHECKS = {}


def register(pid, level, text, note, technique, design_ref):
    CHECKS[pid] = {
        'property_id': pid,
        'quick_cmd': f'./check {pid} --tier quick',
        'thorough_cmd': f'./check {pid} --tier thorough',
        'evidence_file': f'evidence/{pid}.json',
        'replay_cmd_template': f'./check {pid} --replay {{path}}',
        'engine': 'sim',
        'level_claimed': {'category': level, 'text': text, 'design_ref': design_ref},
        'level_note': note,
        'technique': technique,
    }


exec(open(os.path.join(HERE, 'manifest_checks.py')).read())

pending = {}
if os.path.exists(os.path.join(HERE, 'manifest_pending.json')):
    pending = json.load(open(os.path.join(HERE, 'manifest_pending.json')))

na = dict(NA)
na.update({k: v for k, v in pending.items() if k not in CHECKS})
manifest = {
 'version': 1,
 'setup_cmd': './check setup',
 'hooks': {
   'guard': 'XMLSCHEMA_VERIF',
   'enable': 'no source hooks exist: every seam is an existing argument or module-level name patched from the harness; the checks import xmlschema from /repo (editable install) at the moment they run',
   'baseline_off_cmd': 'cd /repo && /venv/bin/python -m pytest -ra -q -p no:cacheprovider --timeout=900 --continue-on-collection-errors',
   'source_commits': [],
   'add_only': True,
 },
 'engines': [
   {'name': 'sim', 'path': 'sim/', 'serves_properties': sorted(CHECKS),
    'kind_free_text': 'seeded deterministic simulation: fork-per-run from a warmed template, simulated streams/peer/file tree with delivery and fault plans, baton scheduler over real threads, operation histories with abort faults; pristine-fork differential oracles'},
 ],
 'checks': [CHECKS[k] for k in sorted(CHECKS)],
 'not_applicable': [{'property_id': k, 'reason': v} for k, v in sorted(na.items())],
 'notes': 'See DESIGN.md. Exit codes: 0 held (KNOWN-FINDING lines for listed open findings), 1 VIOLATION, 2 HARNESS-ERROR.',
}
json.dump(manifest, open(os.path.join(HERE, 'MANIFEST.json'), 'w'), indent=1)
print('checks:', sorted(CHECKS), 'not_applicable:', len(manifest['not_applicable']))
