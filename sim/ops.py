"""
Operation execution shared by the checks: build the source for a delivery channel, call
one library API, return the canonical result.
"""
import io
import os
import json
from xml.etree import ElementTree

from sim import canon
from sim.simio import make_stream, SimPeer, Plan, decode_declared, declared_encoding

CONVERTERS = ('default', 'badgerfish', 'jsonml', 'unordered', 'parker', 'abdera', 'columnar', 'gdata')


def get_converter(name):
    import xmlschema
    return {
        None: None, 'default': None,
        'badgerfish': xmlschema.BadgerFishConverter,
        'jsonml': xmlschema.JsonMLConverter,
        'unordered': xmlschema.UnorderedConverter,
        'parker': xmlschema.ParkerConverter,
        'abdera': xmlschema.AbderaConverter,
        'columnar': xmlschema.ColumnarConverter,
        'gdata': xmlschema.GDataConverter,
        'dataelement': xmlschema.DataElementConverter,
    }[name]


class Env:
    """Per-run environment: scratch directory, peer, opened streams."""
    def __init__(self, scratch):
        self.scratch = scratch
        from pool import pool as _pool
        base = _pool.POOL_PEER       # pages behind the pool's remote location hints stay reachable
        self.peer = SimPeer(pages=dict(base.pages) if base is not None else None)
        self.peer.install()
        self.n = 0
        self.streams = []

    def path_for(self, data, name=None):
        self.n += 1
        os.makedirs(self.scratch, exist_ok=True)
        p = os.path.join(self.scratch, name or f'doc{self.n}.xml')
        with open(p, 'wb') as fp:
            fp.write(data)
        return p

    def cleanup(self):
        import shutil
        for st in self.streams:
            try:
                st.close()
            except Exception:
                pass
        shutil.rmtree(self.scratch, ignore_errors=True)


STREAM_CHANNELS = ('raw', 'buffered', 'textio', 'duck')
ALL_CHANNELS = ('bytes', 'text', 'bytesio', 'stringio', 'raw', 'buffered', 'textio', 'duck',
                'path', 'pathobj', 'fileurl', 'http', 'etree', 'element', 'resource')
LAZY_CHANNELS = ('raw', 'buffered', 'textio', 'duck', 'path', 'fileurl', 'http', 'bytes', 'bytesio')


def make_source(env, data, src):
    """Returns (source, stream core or None). `src` = {'ch', 'plan', 'seekable', 'faults'}."""
    ch = src.get('ch', 'bytes')
    plan = src.get('plan')
    if ch == 'bytes':
        return data, None
    if ch == 'text':
        return decode_declared(data), None
    if ch == 'bytesio':
        return io.BytesIO(data), None
    if ch == 'stringio':
        return io.StringIO(decode_declared(data)), None
    if ch in STREAM_CHANNELS:
        kind = {'textio': 'text'}.get(ch, ch)
        st = make_stream(kind, data, plan=plan, seekable=src.get('seekable', True),
                         faults=src.get('faults'), url=src.get('url'))
        env.streams.append(st)
        return st, st.core
    if ch in ('openfile', 'openfile_text'):
        fp = open(env.path_for(data), 'rb') if ch == 'openfile' else open(env.path_for(data), 'r', encoding=declared_encoding(data))
        env.streams.append(fp)
        return fp, None
    if ch == 'path':
        return env.path_for(data), None
    if ch == 'pathobj':
        from pathlib import Path
        return Path(env.path_for(data)), None
    if ch == 'fileurl':
        return 'file://' + env.path_for(data), None
    if ch == 'http':
        env.n += 1
        url = f'http://sim.test/d{env.n}.xml'
        env.peer.pages[url] = data
        if plan:
            env.peer.plans[url] = plan
        return url, None
    if ch == 'etree':
        return ElementTree.ElementTree(ElementTree.fromstring(data)), None
    if ch == 'element':
        return ElementTree.fromstring(data), None
    if ch == 'resource':
        import xmlschema
        return xmlschema.XMLResource(data), None
    if ch in ('lxml_tree', 'lxml_element'):
        import lxml.etree
        root = lxml.etree.fromstring(data)
        return (lxml.etree.ElementTree(root) if ch == 'lxml_tree' else root), None
    raise ValueError(ch)


def wrap_resource(env, source, op):
    """Wrap in an XMLResource when the op asks for a lazy resource."""
    import xmlschema
    lazy = op.get('lazy', 0)
    if op.get('defuse'):
        return xmlschema.XMLResource(source, defuse=op['defuse'], lazy=(True if lazy == 1 else lazy) if lazy else False)
    if not lazy:
        return source
    return xmlschema.XMLResource(source, lazy=True if lazy == 1 else lazy,
                                 thin_lazy=op.get('thin', True), opener=None)


def errors_canon(errs, lazy=False):
    return [canon.canon_error(e, with_path=not lazy, with_elem=not lazy) for e in errs]


def call_api(schema, source, op, hooks=None):
    """Call one library API; returns the canonical result dict. Exceptions propagate."""
    import xmlschema
    api = op['api']
    lazy = bool(op.get('lazy'))
    kw = dict(hooks or {})
    if op.get('path'):
        kw['path'] = op['path']
    if api == 'is_valid':
        if op.get('pkg'):
            return {'k': 'ok', 'v': xmlschema.is_valid(source, schema, **kw)}
        return {'k': 'ok', 'v': schema.is_valid(source, **kw)}
    if api == 'iter_errors':
        if op.get('pkg'):
            errs = list(xmlschema.iter_errors(source, schema, **kw))
        else:
            errs = list(schema.iter_errors(source, **kw))
        return {'k': 'ok', 'v': errors_canon(errs, lazy)}
    if api == 'iter_errors_abandon':
        it = schema.iter_errors(source, **kw)
        errs = []
        for e in it:
            errs.append(e)
            if len(errs) >= op.get('take', 1):
                break
        it.close()
        return {'k': 'ok', 'v': errors_canon(errs, lazy)}
    if api == 'validate':
        if op.get('pkg'):
            xmlschema.validate(source, schema, **kw)
        else:
            schema.validate(source, **kw)
        return {'k': 'ok', 'v': None}
    if api in ('decode', 'decode_lax', 'decode_skip', 'to_dict_pkg'):
        validation = {'decode': 'strict', 'decode_lax': 'lax', 'decode_skip': 'skip',
                      'to_dict_pkg': 'strict'}[api]
        conv = get_converter(op.get('conv'))
        if conv is not None:
            kw['converter'] = conv
        for k in ('decimal_type', 'datetime_types', 'binary_types', 'fill_missing', 'keep_empty', 'keep_unknown',
                  'max_depth', 'process_namespaces'):
            if k in op:
                kw[k] = op[k] if k != 'decimal_type' else {'str': str, 'float': float}[op[k]]
        if api == 'to_dict_pkg':
            res = xmlschema.to_dict(source, schema, **kw)
        else:
            res = schema.decode(source, validation=validation, **kw)
        if validation == 'lax':
            data, errs = res
            return {'k': 'ok', 'v': [canon.canon_data(data), errors_canon(errs, lazy)]}
        return {'k': 'ok', 'v': canon.canon_data(res)}
    if api == 'to_objects':
        res = schema.to_objects(source, **kw)
        return {'k': 'ok', 'v': canon.canon_data(res)}
    if api == 'iter_decode':
        items = []
        for x in schema.iter_decode(source, **kw):
            items.append(canon.canon_data(x))
        return {'k': 'ok', 'v': items}
    if api == 'to_json':
        s = xmlschema.to_json(source, schema=schema, lazy=lazy, **kw)
        return {'k': 'ok', 'v': json.loads(s)}
    if api == 'roundtrip':
        conv = get_converter(op.get('conv'))
        ckw = {'converter': conv} if conv is not None else {}
        data = schema.decode(source, validation='lax', **ckw)[0]
        out = schema.encode(data, validation='lax', **ckw)
        return {'k': 'ok', 'v': canon.canon_encoded(out)}
    raise ValueError(f"unknown api {api!r}")


def run_op(schema, env, data, op, hooks=None, keep=None):
    """
    Build the source for op['src'], call the API, canonicalise. Returns (result, core).
    Any exception is canonicalised; the exception object is kept in keep['exc'] if given.
    """
    core = None
    try:
        if keep is not None and keep.get('source') is not None:
            source = keep['source']
            core = keep.get('core')
        else:
            source, core = make_source(env, data, op.get('src') or {})
            source = wrap_resource(env, source, op)
            if keep is not None:
                keep['source'] = source
                keep['core'] = core
        res = call_api(schema, source, op, hooks)
    except BaseException as exc:
        if type(exc).__name__ in ('CaseTimeout', 'AsyncAbort', 'KeyboardInterrupt', 'SystemExit'):
            raise
        if keep is not None:
            keep['exc'] = exc
        res = canon.canon_exc(exc)
    return res, core


# reference key: what the eager reference depends on (not channel, delivery or laziness)
def ref_key(op):
    return json.dumps({k: v for k, v in sorted(op.items())
                       if k not in ('src', 'lazy', 'thin', 'pkg', 'doc', 'abort', 'reuse', 'take')
                       or (k == 'take' and op['api'] == 'iter_errors_abandon')},
                      sort_keys=True)


def reference_op(op):
    """The eager, bytes, in-memory form of an op (what the pristine fork evaluates)."""
    r = {k: v for k, v in op.items() if k not in ('src', 'lazy', 'thin', 'pkg', 'abort', 'reuse')}
    return r
