"""
Core of the deterministic simulation driver: seed derivation, forked execution of
runs from a warmed template process, result collection, evidence, known findings,
replay files and the generic minimisation loop.

Process model (DESIGN.md 2.2)

    template (this process: imports, schema pool, references, seams)
        └── lane 0..W-1      (forked once; lane k owns groups k, k+W, ...)
              └── run child  (forked per group of cases; pristine copy of the template;
                              executes the cases, judges them, writes JSON, _exit)

A run never reads a clock or any entropy other than its run seed. The batch driver
reads the wall clock only to stop *starting* groups when the budget is exhausted.
"""
import gc
import hashlib
import json
import os
import random
import select
import signal
import sys
import time
import traceback

VERIF_DIR = os.path.dirname(os.path.dirname(os.path.abspath(__file__)))
REPO_DIR = os.environ.get('VERIF_REPO', '/repo')
EVIDENCE_DIR = os.path.join(VERIF_DIR, 'evidence')
REPLAY_DIR = os.path.join(VERIF_DIR, 'replays')
KNOWN_FINDINGS = os.path.join(VERIF_DIR, 'known_findings.json')

EXIT_OK, EXIT_VIOLATION, EXIT_HARNESS = 0, 1, 2


class HarnessError(Exception):
    pass


class CaseTimeout(BaseException):
    pass


def derive_seed(master, prop, i):
    h = hashlib.sha256(f"{master}/{prop}/{i}".encode()).digest()
    return int.from_bytes(h[:8], 'big')


def sub_rng(seed, *labels):
    h = hashlib.sha256(('/'.join(str(x) for x in (seed,) + labels)).encode()).digest()
    return random.Random(int.from_bytes(h[:8], 'big'))


def stable_hash(obj):
    return hashlib.sha256(json.dumps(obj, sort_keys=True, default=repr).encode()).hexdigest()[:16]


def tree_fingerprint():
    """Hash of the library sources the checks import (the working tree, not HEAD)."""
    h = hashlib.sha256()
    base = os.path.join(REPO_DIR, 'xmlschema')
    for root, dirs, files in sorted(os.walk(base)):
        dirs.sort()
        for f in sorted(files):
            if f.endswith(('.py', '.xsd')):
                p = os.path.join(root, f)
                h.update(p.encode())
                with open(p, 'rb') as fp:
                    h.update(fp.read())
    return h.hexdigest()[:16]


# --------------------------------------------------------------------------
# forked execution

def _write_all(fd, data):
    view = memoryview(data)
    while view:
        n = os.write(fd, view)
        view = view[n:]


def _read_until_eof(fd, deadline):
    """Read fd until EOF or deadline (monotonic seconds). Returns (bytes, timed_out)."""
    chunks = []
    while True:
        left = deadline - time.monotonic()
        if left <= 0:
            return b''.join(chunks), True
        r, _, _ = select.select([fd], [], [], min(left, 1.0))
        if not r:
            continue
        data = os.read(fd, 1 << 16)
        if not data:
            return b''.join(chunks), False
        chunks.append(data)


def fork_call(fn, args=(), timeout=120.0, quiet=True):
    """
    Run fn(*args) in a forked child and return ('ok', value) | ('exc', text) |
    ('timeout', None) | ('died', status). The value must be JSON serialisable.
    """
    rfd, wfd = os.pipe()
    sys.stdout.flush()
    sys.stderr.flush()
    pid = os.fork()
    if pid == 0:
        status = 0
        try:
            os.close(rfd)
            gc.disable()
            try:
                value = fn(*args)
                payload = json.dumps(['ok', value], default=repr)
            except BaseException:
                payload = json.dumps(['exc', traceback.format_exc()])
            _write_all(wfd, payload.encode())
            os.close(wfd)
        except BaseException:
            status = 3
        finally:
            os._exit(status)
    os.close(wfd)
    data, timed_out = _read_until_eof(rfd, time.monotonic() + timeout)
    os.close(rfd)
    if timed_out:
        try:
            os.kill(pid, signal.SIGKILL)
        except ProcessLookupError:
            pass
        os.waitpid(pid, 0)
        return 'timeout', None
    _, status = os.waitpid(pid, 0)
    if not data:
        return 'died', status
    try:
        kind, value = json.loads(data)
    except ValueError:
        return 'died', status
    return kind, value


def parallel_map(fn, items, workers=None, timeout=120.0):
    """
    Evaluate fn(item) for every item, each in its own forked child of this process,
    `workers` at a time. Returns the list of results in order. Used to fill reference
    tables: every evaluation starts from the pristine template state.
    """
    workers = workers or n_workers()
    items = list(items)
    results = [None] * len(items)
    rfd_lane = []
    lanes = []
    for k in range(min(workers, len(items)) or 1):
        rfd, wfd = os.pipe()
        sys.stdout.flush()
        sys.stderr.flush()
        pid = os.fork()
        if pid == 0:
            os.close(rfd)
            try:
                out = []
                for idx in range(k, len(items), workers):
                    out.append([idx, fork_call(fn, (items[idx],), timeout)])
                _write_all(wfd, json.dumps(out, default=repr).encode())
            finally:
                os._exit(0)
        os.close(wfd)
        lanes.append(pid)
        rfd_lane.append(rfd)
    for pid, rfd in zip(lanes, rfd_lane):
        data, _ = _read_until_eof(rfd, time.monotonic() + timeout * (len(items) + 1))
        os.close(rfd)
        os.waitpid(pid, 0)
        if not data:
            raise HarnessError("reference lane died")
        for idx, res in json.loads(data):
            results[idx] = res
    for idx, res in enumerate(results):
        if res is None or res[0] != 'ok':
            raise HarnessError(f"reference evaluation {idx} failed: {res!r} item={items[idx]!r}")
    return [r[1] for r in results]


def n_workers():
    try:
        return max(1, int(os.environ.get('VERIF_WORKERS', '') or os.cpu_count() or 1))
    except ValueError:
        return os.cpu_count() or 1


# --------------------------------------------------------------------------
# the batch driver

class Check:
    """Interface every check implements (see checks/*.py)."""
    PROP = ''
    LEVEL = 'exploration'
    GROUP = 1                # cases per run child
    CASE_TIMEOUT = 60.0      # wall seconds after which a run child is killed (harness, not verdict)
    RULE = ''
    BUDGET = {'quick': 600.0, 'thorough': 2400.0}   # wall seconds after which no new group is started
    ASSUMPTIONS = []
    REAL_STUB = {}

    def setup(self, tier, master_seed):
        """Build pool, references and seams in the template process."""

    def n_cases(self, tier):
        raise NotImplementedError

    def gen_case(self, rng, index):
        """Pure function (rng, index) -> JSON-able case."""
        raise NotImplementedError

    def run_case(self, case):
        """
        Execute and judge one case in a run child. Returns a dict with keys
        violations: list of {signature: dict, detail: ...}; skeleton: hashable JSON;
        nontrivial: bool; counters: {name: int}; digest: str (event digest).
        """
        raise NotImplementedError

    def shrink(self, case):
        """Yield strictly simpler variants of the case."""
        return iter(())

    def extra_evidence(self):
        return {}


def _run_group(check, master_seed, indexes):
    out = []
    for i in indexes:
        seed = derive_seed(master_seed, check.PROP, i)
        case = check.gen_case(random.Random(seed), i)
        try:
            res = check.run_case(case)
        except CaseTimeout:
            res = {'violations': [], 'harness': 'case_timeout', 'skeleton': None,
                   'nontrivial': False, 'counters': {}, 'digest': ''}
        except Exception:
            res = {'violations': [], 'harness': traceback.format_exc(), 'skeleton': None,
                   'nontrivial': False, 'counters': {}, 'digest': ''}
        res['i'] = i
        res['seed'] = seed
        out.append(res)
    return out


def _lane_main(check, master_seed, groups, lane, workers, wfd, deadline):
    out = os.fdopen(wfd, 'w')
    for g in range(lane, len(groups), workers):
        if time.monotonic() > deadline:
            out.write(json.dumps({'skipped': groups[g]}) + '\n')
            continue
        kind, value = fork_call(_run_group, (check, master_seed, groups[g]),
                                timeout=check.CASE_TIMEOUT * len(groups[g]))
        if kind == 'ok':
            for res in value:
                out.write(json.dumps(res, default=repr) + '\n')
        else:
            out.write(json.dumps({'group_failed': groups[g], 'kind': kind,
                                  'info': value}, default=repr) + '\n')
        out.flush()
    out.close()


class Batch:
    def __init__(self, check, tier, master_seed, budget_s=None, runs=None):
        self.check = check
        self.tier = tier
        self.master_seed = master_seed
        self.budget_s = budget_s
        self.runs = runs
        self.counters = {}
        self.skeletons = set()
        self.nontrivial = set()
        self.digest = hashlib.sha256()
        self.violations = []      # (index, seed, violation)
        self.harness_failures = []
        self.evaluations = 0
        self.skipped = 0
        self.samples = []
        self.tags = set()

    def run(self):
        check = self.check
        n = self.runs if self.runs is not None else check.n_cases(self.tier)
        indexes = list(range(n))
        gs = max(1, check.GROUP)
        groups = [indexes[k:k + gs] for k in range(0, n, gs)]
        workers = min(n_workers(), len(groups)) or 1
        deadline = time.monotonic() + (self.budget_s or 1e9)
        lanes = []
        sys.stdout.flush()
        sys.stderr.flush()
        for lane in range(workers):
            rfd, wfd = os.pipe()
            pid = os.fork()
            if pid == 0:
                os.close(rfd)
                for _, fd in lanes:
                    os.close(fd)
                try:
                    _lane_main(check, self.master_seed, groups, lane, workers, wfd, deadline)
                except BaseException:
                    traceback.print_exc()
                    os._exit(4)
                os._exit(0)
            os.close(wfd)
            lanes.append((pid, rfd))

        results = {}
        bufs = {rfd: b'' for _, rfd in lanes}
        open_fds = set(bufs)
        while open_fds:
            r, _, _ = select.select(list(open_fds), [], [], 5.0)
            for fd in r:
                data = os.read(fd, 1 << 16)
                if not data:
                    open_fds.discard(fd)
                    continue
                bufs[fd] += data
                while b'\n' in bufs[fd]:
                    line, bufs[fd] = bufs[fd].split(b'\n', 1)
                    self._absorb(json.loads(line), results)
        for pid, rfd in lanes:
            os.close(rfd)
            _, status = os.waitpid(pid, 0)
            if status != 0:
                self.harness_failures.append(f"lane {pid} exited with status {status}")

        self.run_digests = dict(results)
        # the digest is order independent of lanes: fold results by index
        for i in sorted(results):
            self.digest.update(f"{i}:{results[i]}".encode())
        return self

    def _absorb(self, res, results):
        if 'skipped' in res:
            self.skipped += len(res['skipped'])
            return
        if 'group_failed' in res:
            self.harness_failures.append(
                f"group {res['group_failed'][:3]}.. {res['kind']}: {str(res['info'])[-800:]}")
            return
        self.evaluations += 1
        i = res['i']
        results[i] = res.get('digest', '')
        if res.get('harness'):
            self.harness_failures.append(f"run {i} seed {res['seed']}: {res['harness'][-1500:]}")
        for name, v in res.get('counters', {}).items():
            self.counters[name] = self.counters.get(name, 0) + v
        sk = res.get('skeleton')
        if sk is not None:
            key = stable_hash(sk)
            self.skeletons.add(key)
            if res.get('nontrivial'):
                self.nontrivial.add(key)
        for v in res.get('violations', []):
            self.violations.append((i, res['seed'], v))
        if res.get('tags') and len(self.tags) < 50000:
            self.tags.update(res['tags'])
        if len(self.samples) < 4 and res.get('sample') is not None:
            self.samples.append(res['sample'])


# --------------------------------------------------------------------------
# known findings

def load_known_findings(prop):
    if not os.path.exists(KNOWN_FINDINGS):
        return []
    with open(KNOWN_FINDINGS) as fp:
        data = json.load(fp)
    return [e for e in data.get('findings', []) if e.get('property') == prop]


def signature_matches(entry_sig, sig):
    """An open finding suppresses a violation only if its signature is a subset of it."""
    for k, v in entry_sig.items():
        if k not in sig:
            return False
        if isinstance(v, list):
            if sig[k] not in v:
                return False
        elif sig[k] != v:
            return False
    return True


def classify(prop, violations):
    """Split violations into (unlisted, {finding key: [violations]})."""
    known = [e for e in load_known_findings(prop) if e.get('status') == 'open']
    unlisted, listed = [], {}
    for item in violations:
        sig = item[2]['signature']
        for e in known:
            if entry_matches(e, sig):
                listed.setdefault(e['key'], []).append(item)
                break
        else:
            unlisted.append(item)
    return unlisted, listed


def entry_matches(entry, sig):
    """An entry lists one signature or several alternative ones (each matched as a subset)."""
    sigs = entry.get('signatures') or [entry['signature']]
    return any(signature_matches(s, sig) for s in sigs)


# --------------------------------------------------------------------------
# replay + minimisation

def execute_case(check, case, timeout=None):
    """Run one case in a pristine forked child of the template; returns run_case's dict."""
    kind, value = fork_call(check.run_case, (case,), timeout or check.CASE_TIMEOUT)
    if kind != 'ok':
        return {'violations': [], 'harness': f"{kind}: {value}", 'counters': {}, 'digest': ''}
    return value


def same_violation(result, signature):
    for v in result.get('violations', []):
        if v['signature'] == signature:
            return v
    return None


def minimise(check, case, signature, time_box=60.0, log=None):
    """Greedy shrinking: keep a candidate while the same signature persists."""
    deadline = time.monotonic() + time_box
    steps = 0
    improved = True
    while improved and time.monotonic() < deadline:
        improved = False
        for cand in check.shrink(case):
            if time.monotonic() > deadline:
                break
            steps += 1
            res = execute_case(check, cand)
            if same_violation(res, signature):
                case = cand
                improved = True
                break
    if log:
        log(f"minimise: {steps} candidates tried")
    return case


def write_replay(check, master_seed, index, seed, case, violation, minimised):
    os.makedirs(REPLAY_DIR, exist_ok=True)
    sig = violation['signature']
    name = f"{check.PROP}-{stable_hash(sig)}.json"
    path = os.path.join(REPLAY_DIR, name)
    with open(path, 'w') as fp:
        json.dump({
            'property': check.PROP,
            'master_seed': master_seed,
            'run_index': index,
            'run_seed': seed,
            'minimised': minimised,
            'expected_signature': sig,
            'detail': violation.get('detail'),
            'tree_fingerprint': tree_fingerprint(),
            'case': case,
        }, fp, indent=1, default=repr, sort_keys=True)
    return path


def replay_file(check, path):
    with open(path) as fp:
        rep = json.load(fp)
    res = execute_case(check, rep['case'])
    if res.get('harness'):
        print(f"HARNESS-ERROR: replay failed to execute: {res['harness']}")
        return EXIT_HARNESS
    v = same_violation(res, rep['expected_signature'])
    if v:
        print(json.dumps(v, indent=1, default=repr)[:4000])
        print(f"VIOLATION property={check.PROP} replay={path}")
        return EXIT_VIOLATION
    others = res.get('violations', [])
    if others:
        print("replay produced different violation(s):")
        for o in others[:5]:
            print(json.dumps(o['signature'], sort_keys=True))
        print(f"VIOLATION property={check.PROP} replay={path}")
        return EXIT_VIOLATION
    print(f"replay of {path}: signature not reproduced on this tree (property held)")
    return EXIT_OK


# --------------------------------------------------------------------------
# one complete check invocation

def run_check(check, tier, master_seed, runs=None, budget_s=None, quiet=False):
    t0 = time.time()
    print(f"[{check.PROP}] tier={tier} VERIF_SEED={master_seed} workers={n_workers()} "
          f"tree={tree_fingerprint()}")
    sys.stdout.flush()
    check.setup(tier, master_seed)
    t_setup = time.time() - t0
    batch = Batch(check, tier, master_seed, budget_s=budget_s, runs=runs).run()
    t_run = time.time() - t0 - t_setup

    unlisted, listed = classify(check.PROP, batch.violations)

    # canonical replays of known findings (and regressions of fixed ones)
    exit_code = EXIT_OK
    known = load_known_findings(check.PROP)
    known_lines = []
    for e in known:
        rp = e.get('canonical_replay')
        reproduced = None
        if rp:
            with open(os.path.join(VERIF_DIR, rp)) as fp:
                rep = json.load(fp)
            if rep.get('master_seed', master_seed) != master_seed and getattr(check, 'POOL_DEPENDS_ON_SEED', True):
                # the case names pool documents by index and the pool is drawn from VERIF_SEED: under another seed
                # the file is replayed only through `--replay` (which sets up the pool it was captured with)
                res = {'violations': []}
                reproduced = 'other-seed'
            else:
                res = execute_case(check, rep['case'])
                if res.get('harness'):
                    batch.harness_failures.append(f"canonical replay {rp}: {res['harness'][-500:]}")
            sigs = [v['signature'] for v in res.get('violations', [])]
            if reproduced != 'other-seed':
                reproduced = any(entry_matches(e, s) for s in sigs)
            if e['status'] == 'fixed' and sigs:
                # a fixed entry suppresses nothing: what its replay shows is reported (unless it is another, listed,
                # open finding that the same input happens to exhibit)
                for v in res['violations']:
                    u, _ = classify(check.PROP, [(-1, 0, v)])
                    for item in u:
                        unlisted.append((-1, rep.get('run_seed', 0), v, rep['case']))
            elif e['status'] == 'open':
                for v in res['violations']:
                    if not entry_matches(e, v['signature']):
                        u, _ = classify(check.PROP, [(-1, 0, v)])
                        for item in u:
                            unlisted.append((-1, rep.get('run_seed', 0), v, rep['case']))
        if e['status'] == 'open':
            n = len(listed.get(e['key'], []))
            state = {True: 'reproduced', False: 'NOT reproduced', None: 'no canonical replay',
                     'other-seed': 'captured under another VERIF_SEED, run it with --replay'}[reproduced]
            known_lines.append(f"KNOWN-FINDING: property={check.PROP} {e['key']} {e['what']} "
                               f"[canonical replay {state}; {n} matching runs in this batch]")

    # report unlisted violations: distinct signatures, minimised, with replay files
    seen = {}
    for item in unlisted:
        key = stable_hash(item[2]['signature'])
        seen.setdefault(key, item)
    if os.environ.get('VERIF_SURVEY'):
        counts = {}
        for item in unlisted:
            k = stable_hash(item[2]['signature'])
            counts[k] = counts.get(k, 0) + 1
        for k, item in sorted(seen.items(), key=lambda kv: -counts[kv[0]]):
            print(f"SURVEY n={counts[k]} sig={json.dumps(item[2]['signature'], sort_keys=True)}")
            print(f"   e.g. run {item[0]}: {json.dumps(item[2].get('detail'), default=repr)[:int(os.environ.get('VERIF_SURVEY_LEN', '700'))]}")
        for k, items in listed.items():
            print(f"SURVEY known {k}: {len(items)} runs")
        return EXIT_VIOLATION if seen else EXIT_OK
    viol_lines = []
    for key, item in list(seen.items())[:5]:
        index, seed, violation = item[:3]
        if len(item) > 3:
            case = item[3]
        else:
            case = check.gen_case(random.Random(seed), index)
        res = execute_case(check, case)
        if res.get('pin') is not None:
            # the run pinned its nondeterministic-by-policy part (e.g. the recorded schedule) into the case
            pinned = res['pin']
            if same_violation(execute_case(check, pinned), violation['signature']):
                case = pinned
        v = same_violation(res, violation['signature'])
        minimised = False
        if v is not None:
            box = 45.0 if tier == 'quick' else 180.0
            small = minimise(check, case, violation['signature'], time_box=box)
            minimised = small != case
            case = small
            violation = same_violation(execute_case(check, case), violation['signature']) or violation
        else:
            violation = dict(violation)
            violation['note'] = 'did not reproduce when re-executed alone; group-dependent'
        path = write_replay(check, master_seed, index, seed, case, violation, minimised)
        viol_lines.append((violation, path))

    wall = time.time() - t0
    ev = {
        'property_id': check.PROP,
        'tier': tier,
        'seed': master_seed,
        'level': check.LEVEL,
        'wall_s': round(wall, 2),
        'violations': len(seen),
        'assumptions': check.ASSUMPTIONS,
        'coverage': {
            'evaluations': batch.evaluations,
            'distinct_nontrivial': len(batch.nontrivial),
            'distinct_skeletons': len(batch.skeletons),
            'rule': check.RULE,
            'samples': batch.samples,
            'exhaustive': False,
            'runs_per_hour': int(batch.evaluations / max(t_run, 1e-6) * 3600),
            'setup_s': round(t_setup, 2),
            'run_s': round(t_run, 2),
            'skipped_budget_exhausted': batch.skipped,
            'batch_digest': batch.digest.hexdigest()[:16],
            'counters': dict(sorted(batch.counters.items())),
            'known_findings_matched': {k: len(v) for k, v in listed.items()},
            'distinct_tags': len(batch.tags),
            'tag_samples': sorted(batch.tags)[:12],
            'harness_failures': len(batch.harness_failures),
            'real_vs_stub': check.REAL_STUB,
            'simulated_time': 'none: the library reads no clock (DESIGN.md 5); logical steps are in counters',
            'tree_fingerprint': tree_fingerprint(),
        },
    }
    ev['coverage'].update(check.extra_evidence())
    os.makedirs(EVIDENCE_DIR, exist_ok=True)
    tmp = os.path.join(EVIDENCE_DIR, f".{check.PROP}.json.tmp")
    with open(tmp, 'w') as fp:
        json.dump(ev, fp, indent=1, default=repr)
    os.replace(tmp, os.path.join(EVIDENCE_DIR, f"{check.PROP}.json"))

    print(f"[{check.PROP}] runs={batch.evaluations} distinct={len(batch.skeletons)} "
          f"nontrivial={len(batch.nontrivial)} setup={t_setup:.1f}s run={t_run:.1f}s "
          f"rate={ev['coverage']['runs_per_hour']}/h digest={ev['coverage']['batch_digest']}")
    for line in known_lines:
        print(line)
    if viol_lines:
        for violation, path in viol_lines:
            print(json.dumps(violation, default=repr, sort_keys=True)[:3000])
            print(f"VIOLATION property={check.PROP} replay={path}")
        return EXIT_VIOLATION

    if batch.harness_failures:
        frac = len(batch.harness_failures) / max(1, batch.evaluations)
        for h in batch.harness_failures[:5]:
            print("harness:", h)
        if frac > 0.002 or batch.evaluations == 0:
            print(f"HARNESS-ERROR: property={check.PROP} {len(batch.harness_failures)} harness "
                  f"failures in {batch.evaluations} runs")
            return EXIT_HARNESS
    if len(batch.nontrivial) < 2:
        print(f"HARNESS-ERROR: property={check.PROP} fewer than 2 distinct non-trivial cases")
        return EXIT_HARNESS
    return exit_code
