"""
histories: operation sequences on one long-lived schema object, with abort faults
(DESIGN.md 2.5). Shared by C10 (histories), C09 (lifecycle) and C18 (thread programs).
"""
import json
import os
import sys

from sim import canon, ops
from sim.core import fork_call


class AsyncAbort(BaseException):
    """What Ctrl-C or a signal driven timeout does: raised from the trace function."""


class ForeignHookError(Exception):
    """Raised by user hooks (the library's own cooperative fault points)."""


def lib_prefixes():
    import xmlschema
    import elementpath
    return (os.path.dirname(xmlschema.__file__) + os.sep, os.path.dirname(elementpath.__file__) + os.sep)


# --------------------------------------------------------------------------
# the operation menu

def menu(entry):
    """Finite menu of fault-free ops for one pool entry (the reference table's op axis)."""
    if getattr(entry.family, 'defused', False):
        # every document goes through the defusing pre-parse (SafeExpatParser / pulldom)
        return [{'api': api, 'lazy': lazy, 'defuse': 'always'} for lazy in (0, 1)
                for api in ('iter_errors', 'is_valid', 'decode_lax', 'validate')]
    m = []
    for lazy in (0, 1):
        m.append({'api': 'iter_errors', 'lazy': lazy})
        m.append({'api': 'is_valid', 'lazy': lazy})
        m.append({'api': 'validate', 'lazy': lazy})
        m.append({'api': 'iter_errors_abandon', 'take': 1, 'lazy': lazy})
        m.append({'api': 'decode_lax', 'lazy': lazy})
    m.append({'api': 'decode'})
    m.append({'api': 'decode_skip'})
    for conv in ('badgerfish', 'jsonml', 'unordered', 'columnar'):
        m.append({'api': 'decode_lax', 'conv': conv})
    m.append({'api': 'to_objects'})
    m.append({'api': 'roundtrip'})
    m.append({'api': 'roundtrip', 'conv': 'jsonml'})
    m.append({'api': 'decode_lax', 'datetime_types': True, 'binary_types': True, 'decimal_type': 'str'})
    m.append({'api': 'iter_decode'})
    for p in entry.family.paths[:2]:
        m.append({'api': 'iter_errors', 'path': p, 'ns': True})
        m.append({'api': 'decode_lax', 'path': p, 'ns': True})
    for p in getattr(entry.family, 'doc_ns_paths', ()):
        # no namespace map: the prefixes and the default namespace of the path are those of each document
        m.append({'api': 'iter_errors', 'path': p})
        m.append({'api': 'decode_lax', 'path': p, 'lazy': 1})
    if hasattr(entry.family, 'peer_pages'):
        # location hints below the root are followed (the family's hints name schemas that cannot be built, or the
        # namespaces that would be loaded on demand anyway: nothing the schema would not load by itself)
        m.append({'api': 'iter_errors', 'lazy': 0, 'hints': True})
        m.append({'api': 'decode_lax', 'lazy': 0, 'hints': True})
        m.append({'api': 'is_valid', 'lazy': 1, 'hints': True})
    m.append({'api': 'component'})
    m.append({'api': 'find'})
    return m


def op_key(op):
    return json.dumps({k: v for k, v in op.items() if k not in ('doc', 'abort', 'src')}, sort_keys=True)


def family_ns(entry):
    return {k: v for k, v in entry.schema.namespaces.items() if k and k not in ('xs', 'xsi', 'xml', 'vc')}


# --------------------------------------------------------------------------
# hooks as cooperative fault points

class Counter:
    def __init__(self, k):
        self.k = k
        self.n = 0

    def hit(self):
        self.n += 1
        return self.n == self.k


def make_hooks(abort):
    """kwargs for the library call implementing a hook-based abort."""
    import xmlschema
    if not abort:
        return {}
    kind, k = abort['kind'], abort.get('k', 1)
    c = Counter(k)
    if kind == 'stop_hook':
        def hook(elem, xsd_element):
            if c.hit():
                raise xmlschema.XMLSchemaStopValidation()
            return False
        return {'validation_hook': hook}
    if kind in ('hook_skip', 'hook_lax', 'hook_true'):
        ret = {'hook_skip': 'skip', 'hook_lax': 'lax', 'hook_true': True}[kind]

        def hook(elem, xsd_element):
            return ret if c.hit() else False
        return {'validation_hook': hook}
    if kind == 'extra_validator_raise':
        def ev(elem, xsd_element):
            if c.hit():
                raise ForeignHookError('extra_validator')
        return {'extra_validator': ev}
    if kind == 'extra_validator_error':
        def ev(elem, xsd_element):
            if c.hit():
                raise xmlschema.XMLSchemaValidationError(xsd_element, elem, 'injected by extra validator')
        return {'extra_validator': ev}
    if kind == 'value_hook_raise':
        def vh(value, xsd_type):
            if c.hit():
                raise ForeignHookError('value_hook')
            return value
        return {'value_hook': vh}
    if kind == 'element_hook_raise':
        def eh(element_data, xsd_element=None, xsd_type=None):
            if c.hit():
                raise ForeignHookError('element_hook')
            return element_data
        return {'element_hook': eh}
    if kind == 'filler_raise':
        def fl(x):
            raise ForeignHookError('filler')
        return {'filler': fl, 'fill_missing': True}
    return {}


HOOK_ABORTS = ('stop_hook', 'hook_skip', 'hook_lax', 'hook_true', 'extra_validator_raise', 'extra_validator_error',
               'value_hook_raise', 'element_hook_raise', 'filler_raise')
DECODE_ONLY_HOOKS = ('value_hook_raise', 'element_hook_raise', 'filler_raise')
DECODE_APIS = ('decode', 'decode_lax', 'decode_skip', 'iter_decode', 'to_objects')
HOOKABLE_APIS = ('iter_errors', 'is_valid', 'validate') + DECODE_APIS


# --------------------------------------------------------------------------
# async abort through the trace function

class CallCounter:
    """Counts (and optionally aborts at) 'call' events of library frames."""
    def __init__(self, abort_at=None):
        self.prefixes = lib_prefixes()
        self.n = 0
        self.abort_at = abort_at
        self.fired_in = None

    def __call__(self, frame, event, arg):
        if event != 'call':
            return None
        code = frame.f_code
        if not code.co_filename.startswith(self.prefixes):
            return None
        self.n += 1
        if self.abort_at is not None and self.n >= self.abort_at and self.fired_in is None:
            if code.co_flags & 0x20:      # generator frame: an exception raised here is swallowed
                return None
            self.fired_in = f"{os.path.basename(code.co_filename)}:{code.co_name}"
            raise AsyncAbort(self.fired_in)
        return None


# Library functions that write state shared between validations (the targeted variant of the async abort lands
# on a call made from inside one of them; a name that an operation never reaches simply never fires).
ABORT_TARGETS = (
    ('identities.py', 'update_elements'), ('elements.py', 'raw_decode'), ('elements.py', 'check_dynamic_context'),
    ('elements.py', 'collect_key_fields'), ('xsd_globals.py', 'build'), ('xsd_globals.py', 'clear'),
    ('xsd_globals.py', 'protect_status'), ('xsd_globals.py', 'get_instance_type'), ('loaders.py', 'load_namespace'),
    ('loaders.py', 'load_schema'), ('loaders.py', 'import_namespace'), ('caching.py', '__call__'),
    ('caching.py', '__get__'), ('selectors.py', 'cached_selector'), ('schemas.py', 'validation_context'),
    ('attributes.py', 'raw_decode'), ('wildcards.py', 'raw_decode'), ('xml_loader.py', '_lazy_iterparse'),
    ('xml_loader.py', 'iter_depth'), ('validation.py', 'clear'), ('validation.py', '__copy__'),
    ('identities.py', '__init__'), ('identities.py', 'increase'), ('simple_types.py', 'text_decode'),
    ('complex_types.py', 'raw_decode'), ('groups.py', 'raw_decode'), ('assertions.py', '__call__'),
    ('xml_resource.py', 'iterfind'), ('xml_resource.py', 'get_nsmap'), ('sax.py', 'defuse_xml'),
)


HOT_TARGETS = (0, 0, 0, 1, 3, 7, 8, 11, 13)      # update_elements, raw_decode, collect_key_fields, get_instance_type, ...


class TargetedAbort:
    """Aborts at the j-th library call made (directly or one level down) from inside the target function."""
    def __init__(self, target, j):
        self.prefixes = lib_prefixes()
        self.target = tuple(target)
        self.j = j
        self.n = 0
        self.fired_in = None

    def __call__(self, frame, event, arg):
        if event != 'call' or self.fired_in is not None:
            return None
        code = frame.f_code
        if not code.co_filename.startswith(self.prefixes) or code.co_flags & 0x20:
            return None
        back = frame.f_back
        for _ in range(2):
            if back is None:
                return None
            bc = back.f_code
            if bc.co_name == self.target[1] and bc.co_filename.endswith(os.sep + self.target[0]):
                break
            back = back.f_back
        else:
            return None
        self.n += 1
        if self.n >= self.j:
            self.fired_in = f"{os.path.basename(code.co_filename)}:{code.co_name}"
            raise AsyncAbort(f"{self.target[0]}:{self.target[1]}>{self.fired_in}")
        return None


# --------------------------------------------------------------------------
# executing one op on the shared schema

def exec_op(schema, entry, env, op, counters=None):
    """
    Execute one op (possibly with an abort fault). Returns dict:
      res: canonical result, aborted: bool (an abort fault took effect), judged: bool
    """
    import xmlschema
    doc = entry.docs[op['doc']] if 'doc' in op else None
    abort = op.get('abort')
    api = op['api']
    out = {'aborted': False, 'judged': True}

    def count(name):
        if counters is not None:
            counters[name] = counters.get(name, 0) + 1

    if api == 'component':
        out['res'] = component_probe(schema)
        return out
    if api == 'find':
        out['res'] = find_probe(schema, entry)
        return out

    call = {k: v for k, v in op.items() if k not in ('doc', 'abort', 'ns', 'hints')}   # incl. 'defuse'
    hooks = {}
    if op.get('ns'):
        hooks['namespaces'] = family_ns(entry)
    if op.get('hints'):
        hooks['use_location_hints'] = True
    data = doc.data
    src = dict(op.get('src') or {})
    if abort and abort['kind'] == 'eio':
        src = {'ch': 'raw', 'faults': {'eio': abort['k'] % max(1, len(data))}, 'plan': {'sizes': [], 'rest': 64}}
        out['aborted'] = True
        out['judged'] = False
    elif abort and abort['kind'] in HOOK_ABORTS:
        hooks.update(make_hooks(abort))
        out['judged'] = False
    call['src'] = src

    peer = None
    if abort and abort['kind'] == 'fetch_fail':
        # a transient failure of the peer behind the on-demand location hints, for the length of this operation
        # (k odd: only the first fetch fails)
        peer = env.peer
        pages = sorted(entry.family.peer_pages()) if hasattr(entry.family, 'peer_pages') else []
        if peer is None or not pages:
            abort = None
        else:
            del peer.fired[:]
            for url in pages:
                peer.inject(url, [('urlerror', 'timeout', 'http404')[abort['k'] % 3]] * (1 if abort['k'] % 2 else 64))
            out['judged'] = False
            try:
                res, _ = ops.run_op(schema, env, data, call, hooks)
            finally:
                peer.injected.clear()
            out['res'] = res
            out['aborted'] = bool(peer.fired)
            count('fetch_fail_fired' if peer.fired else 'fetch_fail_not_reached')
            return out

    if abort and abort['kind'] == 'async_in':
        target = ABORT_TARGETS[abort['t'] % len(ABORT_TARGETS)]
        j = abort.get('j')
        if j is None:
            # positional variant: a measuring pass on a forked copy (the operation may write the state the abort is
            # after) counts the calls under the target; 'last' is the call nearest to the function's commit
            def measure():
                m = TargetedAbort(target, 1 << 60)
                sys.settrace(m)
                try:
                    ops.run_op(schema, env, data, call, hooks)
                except BaseException:
                    pass
                finally:
                    sys.settrace(None)
                return m.n
            kind_, n = fork_call(measure, (), timeout=100)
            if kind_ != 'ok':
                raise RuntimeError(f'measuring pass failed: {kind_} {n}')
            j = {'first': 1, 'last': n, 'last1': max(1, n - 1)}.get(abort['pos']) or 1 + int(abort.get('frac', 0.5) * n)
            if n == 0:
                j = 1
            out['measured'] = n
        ta = TargetedAbort(target, j)
        sys.settrace(ta)
        try:
            try:
                res, _ = ops.run_op(schema, env, data, call, hooks)
            finally:
                sys.settrace(None)
            out['res'] = res
            out['judged'] = False
            count('targeted_abort_swallowed_or_unreached')
        except AsyncAbort as e:
            out['res'] = {'k': 'raise', 'cls': 'AsyncAbort', 'msg': str(e)}
            out['aborted'] = True
            out['judged'] = False
            count('targeted_abort_fired')
            count('targeted_abort_in_' + str(e).split('>')[0])
        return out

    if abort and abort['kind'] == 'async':
        # abort at the k-th library call of the operation, k log-uniform in [100, 20000] from the case's
        # fraction (no measuring pass: a k beyond the operation's length simply never fires)
        n = None
        k = max(1, int(10 ** (2.0 + abort["frac"] * 2.3)))
        cc = CallCounter(abort_at=k)
        sys.settrace(cc)
        try:
            try:
                res, _ = ops.run_op(schema, env, data, call, hooks)
            finally:
                sys.settrace(None)
            out['res'] = res
            out['judged'] = False          # swallowed or not reached: this op is not judged
            count('async_abort_swallowed_or_unreached')
        except AsyncAbort as e:
            out['res'] = {'k': 'raise', 'cls': 'AsyncAbort', 'msg': str(e)}
            out['aborted'] = True
            out['judged'] = False
            count('async_abort_fired')
            count('async_abort_in_' + str(e).split(':')[0])
        out['abort_at'] = k
        return out

    keep = {}
    res, core_ = ops.run_op(schema, env, data, call, hooks, keep=keep)
    out['res'] = res
    if abort:
        exc = keep.get('exc')
        if abort['kind'] == 'eio':
            if core_ is not None and core_.fired.get('eio'):
                count('abort_eio_fired')
            else:
                out['aborted'] = False
        elif res['k'] == 'raise' and res['cls'] in ('ForeignHookError',):
            out['aborted'] = True
            count('abort_hook_raised_' + abort['kind'])
        elif abort['kind'] == 'stop_hook':
            out['aborted'] = True
            count('abort_stop_hook')
        else:
            count('hook_changed_mode_' + abort['kind'])
    elif res['k'] == 'raise' and api in ('validate', 'decode'):
        out['aborted'] = True      # the strict failure: a natural abort
        count('abort_strict_failure')
    return out


def component_probe(schema):
    """Component-level calls that go through the per-schema scratch validation context."""
    out = []
    for name in sorted(schema.types)[:6]:
        t = schema.types[name]
        for text in ('1', 'AB12', 'true', 'x y', '2020-01-01', ''):
            try:
                if t.is_simple() or t.has_simple_content():
                    out.append([name, text, t.is_valid(text), canon.canon_data(t.decode(text, validation='lax')[0])])
            except Exception as exc:
                out.append([name, text, 'raise', type(exc).__name__])
    # builtin types: their scratch context is the meta-schema's, shared by every schema of the process
    for local in ('decimal', 'boolean', 'int', 'date', 'QName'):
        t = schema.meta_schema.maps.types.get('{http://www.w3.org/2001/XMLSchema}' + local) if schema.meta_schema else None
        if t is None:
            continue
        for text in ('1', 'zz', 'true', ''):
            try:
                out.append(['xs:' + local, text, t.is_valid(text)])
            except Exception as exc:
                out.append(['xs:' + local, text, 'raise', type(exc).__name__])
    for name in sorted(schema.attributes)[:3]:
        a = schema.attributes[name]
        for text in ('1', 'x'):
            try:
                out.append(['@' + name, text, a.is_valid(text)])
            except Exception as exc:
                out.append(['@' + name, text, 'raise', type(exc).__name__])
    return {'k': 'ok', 'v': out}


def find_probe(schema, entry):
    out = []
    ns = family_ns(entry)
    for xsd_element in list(schema.elements.values())[:3]:
        pfx = next((p for p, u in ns.items() if u == schema.target_namespace), None)
        for path in ('*', './/*', '*/*'):
            try:
                r = xsd_element.findall(path, ns)
                out.append([xsd_element.name, path, [getattr(x, 'name', None) for x in r][:20]])
            except Exception as exc:
                out.append([xsd_element.name, path, 'raise', type(exc).__name__])
    # lookups that start at the SCHEMA node: what is global there must not depend on what was validated before
    for path in ('*', '*/*', './/*'):
        try:
            r = schema.findall(path, ns)
            out.append(['schema', path, len(r), sorted({str(getattr(x, 'name', None)) for x in r})[:30]])
        except Exception as exc:
            out.append(['schema', path, 'raise', type(exc).__name__])
    return {'k': 'ok', 'v': out}


def globals_signature(schema):
    """(kind, qualified name, built, error count) of every global component, sorted."""
    out = []
    for kind in ('types', 'elements', 'attributes', 'groups', 'attribute_groups', 'notations', 'identities'):
        view = getattr(schema.maps, kind)
        for name in view:
            try:
                comp = view[name]
                out.append([kind, name, bool(getattr(comp, 'built', None)), len(getattr(comp, 'errors', ()) or ())])
            except Exception as exc:
                out.append([kind, name, 'raise', type(exc).__name__])
    for name, members in schema.maps.substitution_groups.items():
        out.append(['substitution_group', name, sorted(e.name for e in members)])
    out.sort(key=lambda x: (x[0], x[1]))
    return out


# --------------------------------------------------------------------------
# per-run tuning knobs (correctness must not depend on one configuration)

def gen_knobs(rng):
    return {'selectors_prefill': rng.choice([0, 0, 98, 100, 101]), 'use_cache': rng.random() < 0.75}


def apply_knobs(schema, knobs):
    """Pre-fill the module-level XPath selectors cache to its clear threshold; switch the schema's memo cache."""
    if not knobs:
        return
    n = knobs.get('selectors_prefill', 0)
    if n:
        import xmlschema.xpath.selectors as sel
        for k in range(n):
            key = (f'prefill{k}', sel.ElementSelector)
            if key not in sel._selectors_cache:
                sel._selectors_cache[key] = sel.ElementSelector(f'prefill{k}')
    if knobs.get('use_cache') is False:
        try:
            schema.maps.cache.enabled = False
        except Exception:
            pass
