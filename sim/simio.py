"""
simio: caller streams, the remote peer and the fetch monitor (DESIGN.md 2.3).

Every stream is driven by a *delivery plan* (the size each successive read is cut to)
and a *fault plan* keyed by byte offset. Streams stay inside the io contracts:
RawIOBase.readinto / duck read / text read may return short; BufferedIOBase.read(n) is
full-length unless EOF.
"""
import io
import re
import os
import sys
import urllib.request
import urllib.error
import email.message


class InjectedOSError(OSError):
    """The exception instance the simulator injects (identity is checked by oracles)."""


class Plan:
    """Delivery plan: explicit chunk sizes, then `rest` (None = unlimited) for ever."""
    def __init__(self, sizes=(), rest=None):
        self.sizes = list(sizes)
        self.rest = rest
        self.k = 0

    def next(self):
        if self.k < len(self.sizes):
            n = self.sizes[self.k]
        else:
            n = self.rest
        self.k += 1
        return n

    def reset(self):
        self.k = 0

    @classmethod
    def from_json(cls, obj):
        if obj is None:
            return cls()
        return cls(obj.get('sizes', ()), obj.get('rest'))


class StreamCore:
    """Shared state machine: position, plan, faults, statistics."""

    def __init__(self, data, plan=None, seekable=True, faults=None, url=None, reset_plan_on_rewind=True):
        self.data = data
        self.pos = 0
        self.plan = plan or Plan()
        self._seekable = seekable
        self.faults = dict(faults or {})     # eof: k | eio: k | flip: [k, byte] | seekfail: bool | close: k
        self.fired = {}
        self.reads = 0
        self.delivered = 0
        self.cuts = []                       # offsets at which a read ended (before EOF)
        self.rewinds = 0
        self.closed_flag = False
        self.reset_plan = reset_plan_on_rewind
        self.injected = None
        self.owner = None
        if url is not None:
            self.url = url
        if 'flip' in self.faults:
            k, b = self.faults['flip']
            if 0 <= k < len(self.data):
                if isinstance(self.data, str):
                    self.data = self.data[:k] + chr(b) + self.data[k + 1:]
                else:
                    d = bytearray(self.data)
                    d[k] = b
                    self.data = bytes(d)
        self.limit = len(self.data)
        if 'eof' in self.faults:
            self.limit = min(self.limit, self.faults['eof'])

    def _fire(self, kind):
        self.fired[kind] = self.fired.get(kind, 0) + 1

    def take(self, n):
        """Return the next chunk for a read asking at most n items (n None/-1 = all)."""
        if self.closed_flag:
            raise ValueError("I/O operation on closed file.")
        self.reads += 1
        if 'close' in self.faults and self.pos >= self.faults['close']:
            self._fire('close')
            self.closed_flag = True
            if self.owner is not None:
                self.owner.close()
            raise ValueError("I/O operation on closed file.")
        cap = self.plan.next()
        want = self.limit - self.pos
        if n is not None and n >= 0:
            want = min(want, n)
        if cap is not None:
            want = min(want, max(1, cap))
        if 'eio_once' in self.faults and not self.fired.get('eio_once') and self.pos + max(want, 1) > self.faults['eio_once'] >= self.pos:
            # a transient fault: this read fails, the following ones succeed
            self._fire('eio_once')
            self.injected = InjectedOSError(110, 'simulated transient timeout')
            raise self.injected
        if 'eio' in self.faults and self.faults['eio'] >= self.limit and self.pos >= self.limit:
            # the stream raises instead of reporting EOF
            self._fire('eio')
            self.injected = InjectedOSError(5, 'simulated I/O error at EOF')
            raise self.injected
        if 'eio' in self.faults and self.pos + want > self.faults['eio'] >= self.pos:
            # deliver up to the fault offset first; the next read raises
            want = self.faults['eio'] - self.pos
            if want <= 0:
                self._fire('eio')
                self.injected = InjectedOSError(5, 'simulated I/O error')
                raise self.injected
        if want <= 0:
            if self.limit < len(self.data) and self.pos >= self.limit:
                self._fire('eof')
            return self.data[:0]
        chunk = self.data[self.pos:self.pos + want]
        self.pos += want
        self.delivered += want
        if self.pos < len(self.data):
            self.cuts.append(self.pos)
        if 'flip' in self.faults and self.pos > self.faults['flip'][0] >= self.pos - want:
            self._fire('flip')
        return chunk

    def do_seek(self, pos, whence=0):
        if self.closed_flag:
            raise ValueError("I/O operation on closed file.")
        if not self._seekable:
            raise io.UnsupportedOperation("underlying stream is not seekable")
        if self.faults.get('seekfail'):
            self._fire('seekfail')
            self.injected = InjectedOSError(29, 'simulated illegal seek')
            raise self.injected
        if whence == 1:
            pos += self.pos
        elif whence == 2:
            pos += self.limit
        self.pos = max(0, min(pos, self.limit))
        if pos == 0:
            self.rewinds += 1
            if self.reset_plan:
                self.plan.reset()
        return self.pos

    def stats(self):
        return {'reads': self.reads, 'delivered': self.delivered, 'rewinds': self.rewinds,
                'fired': dict(self.fired), 'ncuts': len(self.cuts)}


class SimRaw(io.RawIOBase):
    def __init__(self, data, **kw):
        super().__init__()
        self.core = StreamCore(data, **kw)
        self.core.owner = self
        if hasattr(self.core, 'url'):
            self.url = self.core.url

    def readable(self):
        return True

    def seekable(self):
        return self.core._seekable

    def readinto(self, b):
        chunk = self.core.take(len(b))
        b[:len(chunk)] = chunk
        return len(chunk)

    def seek(self, pos, whence=0):
        return self.core.do_seek(pos, whence)

    def tell(self):
        return self.core.pos

    def close(self):
        self.core.closed_flag = True
        super().close()


class SimBuffered(io.BufferedIOBase):
    """Contract-conforming: read(n) loops until n items or EOF; read1 is plan shaped."""
    def __init__(self, data, short_reads=False, **kw):
        super().__init__()
        self.core = StreamCore(data, **kw)
        self.core.owner = self
        self.short_reads = short_reads       # out-of-contract mode (reported, non-deciding)
        if hasattr(self.core, 'url'):
            self.url = self.core.url

    def readable(self):
        return True

    def seekable(self):
        return self.core._seekable

    def read(self, n=-1):
        if self.short_reads:
            return self.core.take(n)
        chunks = []
        total = 0
        while n is None or n < 0 or total < n:
            c = self.core.take(None if n is None or n < 0 else n - total)
            if not c:
                break
            chunks.append(c)
            total += len(c)
            if self.core.pos >= self.core.limit:
                break     # length-aware (like an HTTP response with Content-Length): no extra probe for EOF
        return b''.join(chunks)

    def read1(self, n=-1):
        return self.core.take(n)

    def readinto(self, b):
        data = self.read(len(b))
        b[:len(data)] = data
        return len(data)

    def readinto1(self, b):
        data = self.read1(len(b))
        b[:len(data)] = data
        return len(data)

    def seek(self, pos, whence=0):
        return self.core.do_seek(pos, whence)

    def tell(self):
        return self.core.pos

    def close(self):
        self.core.closed_flag = True
        super().close()


_ENC_DECL = re.compile(rb'^<\?xml[^>]*?encoding\s*=\s*["\']([A-Za-z0-9._-]+)["\']')


def decode_declared(data):
    """The characters of a document given as bytes, by the encoding its XML declaration names (UTF-8 otherwise): what a
    caller holding the document as text has in hand."""
    if not isinstance(data, bytes):
        return data
    m = _ENC_DECL.match(data[:200])
    if m:
        try:
            return data.decode(m.group(1).decode('ascii'))
        except (LookupError, UnicodeDecodeError):
            pass
    return data.decode('utf-8')


def declared_encoding(data):
    m = _ENC_DECL.match(data[:200]) if isinstance(data, bytes) else None
    if m:
        try:
            import codecs
            return codecs.lookup(m.group(1).decode('ascii')).name
        except LookupError:
            pass
    return 'utf-8'


class SimText(io.TextIOBase):
    """Text stream over decoded characters (plan counts characters)."""
    def __init__(self, data, **kw):
        super().__init__()
        text = decode_declared(data)
        self.core = StreamCore(text, **kw)
        self.core.owner = self
        if hasattr(self.core, 'url'):
            self.url = self.core.url

    def readable(self):
        return True

    def seekable(self):
        return self.core._seekable

    def read(self, n=-1):
        return self.core.take(n)

    def seek(self, pos, whence=0):
        return self.core.do_seek(pos, whence)

    def tell(self):
        return self.core.pos

    def close(self):
        self.core.closed_flag = True
        super().close()


class SimDuck:
    """No io base class: just the six members is_file_object() looks for."""
    def __init__(self, data, **kw):
        self.core = StreamCore(data, **kw)
        self.core.owner = self
        if hasattr(self.core, 'url'):
            self.url = self.core.url

    @property
    def closed(self):
        return self.core.closed_flag

    def read(self, n=-1):
        return self.core.take(n)

    def seekable(self):
        return self.core._seekable

    def seek(self, pos, whence=0):
        return self.core.do_seek(pos, whence)

    def tell(self):
        return self.core.pos

    def close(self):
        self.core.closed_flag = True

    def __enter__(self):
        return self

    def __exit__(self, *a):
        self.close()


STREAM_CLASSES = {'raw': SimRaw, 'buffered': SimBuffered, 'text': SimText, 'duck': SimDuck}


def make_stream(kind, data, plan=None, seekable=True, faults=None, url=None):
    plan = Plan.from_json(plan) if not isinstance(plan, Plan) else plan
    return STREAM_CLASSES[kind](data, plan=plan, seekable=seekable, faults=faults, url=url)


# --------------------------------------------------------------------------
# delivery plans

def markup_positions(data):
    """Offsets of '<' and '>' characters (bytes)."""
    lt = [i for i, c in enumerate(data) if c == 0x3c]
    gt = [i for i, c in enumerate(data) if c == 0x3e]
    return lt, gt


def gen_plan(rng, data, classes=None):
    """Draw a delivery plan (swarm style). Returns (plan json, class name)."""
    n = len(data)
    cls = rng.choice(classes or ['whole', 'block16k', 'tiny', 'geometric', 'boundary', 'boundary', 'halves'])
    if cls == 'whole':
        return {'sizes': [], 'rest': None}, cls
    if cls == 'block16k':
        return {'sizes': [], 'rest': 16384}, cls
    if cls == 'tiny':
        return {'sizes': [], 'rest': rng.randrange(1, 9)}, cls
    if cls == 'geometric':
        sizes = []
        total = 0
        while total < n and len(sizes) < 400:
            s = min(n, max(1, int(rng.expovariate(1 / rng.choice([3, 20, 100, 1000])))))
            sizes.append(s)
            total += s
        return {'sizes': sizes, 'rest': rng.choice([None, 7, 64])}, cls
    if cls == 'halves':
        k = rng.randrange(1, max(2, n))
        return {'sizes': [k], 'rest': None}, cls
    # boundary seeking: cut right before/after the '<' or '>' of chosen tags
    lt, gt = markup_positions(data)
    marks = sorted(set([p for p in lt] + [p + 1 for p in lt] + [p for p in gt] + [p + 1 for p in gt]))
    marks = [m for m in marks if 0 < m < n]
    if not marks:
        return {'sizes': [], 'rest': None}, 'whole'
    k = rng.randrange(1, min(6, len(marks)) + 1)
    cuts = sorted(rng.sample(marks, k))
    sizes = [b - a for a, b in zip([0] + cuts, cuts)]
    return {'sizes': sizes, 'rest': rng.choice([None, None, 5])}, cls


def cut_classes(data, cuts, root_span=None):
    """
    Classify cut offsets relative to the markup: 'in-tag' (between '<' and '>'), 'text'
    (outside any tag), 'after-gt' (right after '>'), 'before-lt' (right before '<').
    """
    out = set()
    for c in cuts[:50]:
        if c <= 0 or c >= len(data):
            continue
        prev_lt = data.rfind(b'<', 0, c)
        prev_gt = data.rfind(b'>', 0, c)
        if data[c - 1:c] == b'>':
            out.add('after-gt')
        elif data[c:c + 1] == b'<':
            out.add('before-lt')
        elif prev_lt > prev_gt:
            out.add('in-tag')
        else:
            out.add('text')
    return sorted(out)


def root_span(data):
    """(start offset of the root start tag, offset after its '>')."""
    i = 0
    n = len(data)
    while True:
        i = data.find(b'<', i)
        if i < 0:
            return n, n
        if data[i + 1:i + 2] in (b'?', b'!'):
            if data[i:i + 4] == b'<!--':
                i = data.find(b'-->', i) + 3
            elif data[i:i + 9] == b'<!DOCTYPE':
                depth = 0
                j = i
                while j < n:
                    if data[j:j + 1] == b'[':
                        depth += 1
                    elif data[j:j + 1] == b']':
                        depth -= 1
                    elif data[j:j + 1] == b'>' and depth == 0:
                        break
                    j += 1
                i = j + 1
            else:
                i = data.find(b'>', i) + 1
            continue
        return i, data.find(b'>', i) + 1


# --------------------------------------------------------------------------
# the remote peer

class SimResponse(SimBuffered):
    """What urlopen returns: a non-seekable buffered response with url/headers/status."""
    def __init__(self, url, body, plan=None, faults=None):
        super().__init__(body, plan=plan, seekable=False, faults=faults)
        self.url = url
        self.headers = email.message.Message()
        self.status = self.code = 200
        self.msg = 'OK'

    def geturl(self):
        return self.url

    def info(self):
        return self.headers

    def getcode(self):
        return 200


class SimPeerHandler(urllib.request.BaseHandler):
    """
    Serves {url: [body, body, ...]} (the n-th open of a URL gets the n-th body, the last one
    repeating) for every non-file scheme, logging every request. A body may be a bytes
    object or a fault marker: 'urlerror', 'timeout', 'http404'.
    """
    handler_order = 100

    def __init__(self, peer):
        self.peer = peer

    def default_open(self, req):
        url = req.full_url
        scheme = url.split(':', 1)[0].lower()
        if scheme == 'file':
            return None
        return self.peer.serve(url)


class SimPeer:
    def __init__(self, pages=None, plans=None):
        self.pages = dict(pages or {})
        self.plans = plans or {}
        self.log = []           # every URL requested, in order
        self.opens = {}
        self.served = []        # (url, body index)
        self.injected = {}      # url -> list of fault markers consumed (one per open) before the page is served
        self.fired = []
        self.opener = urllib.request.OpenerDirector()
        self.opener.add_handler(SimPeerHandler(self))
        self.opener.add_handler(urllib.request.FileHandler())
        self.opener.add_handler(urllib.request.UnknownHandler())

    def serve(self, url):
        self.log.append(url)
        k = self.opens.get(url, 0)
        self.opens[url] = k + 1
        queue = self.injected.get(url)
        if queue:
            fault = queue.pop(0)
            self.fired.append((url, fault))
            bodies = [fault]
            k = 0
        else:
            bodies = self.pages.get(url)
        if bodies is None:
            raise urllib.error.URLError(f'simulated: no such host or page {url}')
        if not isinstance(bodies, list):
            bodies = [bodies]
        idx = min(k, len(bodies) - 1)
        body = bodies[idx]
        self.served.append((url, idx))
        if body == 'urlerror':
            raise urllib.error.URLError('simulated connection refused')
        if body == 'timeout':
            raise TimeoutError('simulated timed out')
        if body == 'http404':
            raise urllib.error.HTTPError(url, 404, 'Not Found', email.message.Message(), None)
        plan = self.plans.get(url)
        if isinstance(body, (list, tuple)) and body and body[0] == 'eio':
            # ('eio', offset, bytes): the transfer breaks after `offset` bytes (a reset / time-out in mid-body)
            return SimResponse(url, body[2], plan=Plan.from_json(plan) if plan else None, faults={'eio': body[1]})
        return SimResponse(url, body, plan=Plan.from_json(plan) if plan else None)

    def inject(self, url, faults):
        """The next len(faults) opens of `url` fail with the given markers ('urlerror' | 'timeout' | 'http404')."""
        self.injected[url] = list(faults)

    def install(self):
        """Route the library's plain urlopen() through this peer too."""
        urllib.request.install_opener(self.opener)


# --------------------------------------------------------------------------
# the monitor

class Monitor:
    """
    Audit-hook based log of every file open / URL request / socket event attempted while
    armed. The hook is process-wide and permanent, so it is installed once (in the template)
    and gated by `armed`.
    """
    _installed = None

    def __init__(self):
        self.armed = False
        self.events = []
        self.roots = ()

    @classmethod
    def get(cls):
        if cls._installed is None:
            m = cls()
            sys.addaudithook(m._hook)
            cls._installed = m
        return cls._installed

    def _hook(self, event, args):
        if not self.armed:
            return
        if event == 'open':
            path = args[0]
            if isinstance(path, bytes):
                path = os.fsdecode(path)
            if isinstance(path, str) and any(path.startswith(r) for r in self.roots):
                self.events.append(('open', path))
        elif event == 'urllib.Request':
            self.events.append(('request', args[0]))
        elif event.startswith('socket.') and event in ('socket.connect', 'socket.getaddrinfo',
                                                       'socket.gethostbyname', 'socket.bind'):
            self.events.append(('socket', event, repr(args[1:] if event == 'socket.connect' else args)[:100]))

    def start(self, roots):
        self.events = []
        self.roots = tuple(roots)
        self.armed = True

    def stop(self):
        self.armed = False
        ev, self.events = self.events, []
        return ev
