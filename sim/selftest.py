"""
Determinism self-test of the harness (DESIGN.md 2.2): a sample of run seeds of several
checks is executed twice in different children at two worker counts, and once more in a
fresh interpreter under another PYTHONHASHSEED with ASLR on; the per-run event digests must
be identical. Any divergence is a harness failure naming the first differing run.
"""
import importlib
import json
import os
import subprocess
import sys

from sim import core

SAMPLE = {'C06': 96, 'C04': 64, 'C11': 96, 'C13': 96, 'C12': 48, 'C10': 48, 'C09': 16, 'C18': 48}
SHORT = {'C06': 32, 'C13': 32, 'C18': 10}
# the schedule of C18 legitimately depends on the library's set iteration orders: its fresh run keeps hash seed 0
FRESH_HASHSEED = {'C18': '0'}


def digests(pid, n, workers, seed=0):
    check = importlib.import_module(f'checks.{pid.lower()}').CHECK()
    os.environ['VERIF_WORKERS'] = str(workers)
    try:
        check.setup('quick', seed)
        batch = core.Batch(check, 'quick', seed, runs=n).run()
    finally:
        os.environ.pop('VERIF_WORKERS', None)
    if batch.harness_failures:
        raise core.HarnessError(f"{pid}: {batch.harness_failures[:2]}")
    return {str(k): v for k, v in batch.run_digests.items()}


def main(argv):
    if '--emit' in argv:
        pid, n = argv[argv.index('--emit') + 1], int(argv[argv.index('--emit') + 2])
        print('DIGESTS ' + json.dumps(digests(pid, n, 5)))
        return 0
    sample = SHORT if '--short' in argv else SAMPLE
    wanted = [a for a in argv if a.startswith('C')]
    failures = 0
    for pid, n in sample.items():
        if wanted and pid not in wanted:
            continue
        short = '--short' in argv
        if pid in FRESH_HASHSEED and len(sample) > 1 and not wanted:
            # C18's schedules depend on address-ordered sets: the reference execution too runs in an interpreter
            # of its own (in this process the heap already holds the other checks' pools)
            env0 = dict(os.environ, VERIF_HASHSEED='0', VERIF_ASLR='off', PYTHONHASHSEED='0')
            env0.pop('VERIF_REEXEC', None)
            p0 = subprocess.run([os.path.join(core.VERIF_DIR, 'check'), 'selftest', '--emit', pid, str(n)],
                                capture_output=True, text=True, env=env0, timeout=900)
            a = next((json.loads(line[8:]) for line in p0.stdout.splitlines() if line.startswith('DIGESTS ')), None)
            if a is None:
                print(f"HARNESS-ERROR: selftest {pid}: reference interpreter produced no digests: {p0.stderr[-300:]}")
                failures += 1
                continue
        else:
            a = digests(pid, n, core.n_workers())
        b = a if short else digests(pid, n, 3)
        hs = FRESH_HASHSEED.get(pid, '7')
        # C18's schedule also depends on address-ordered sets inside the library: ASLR stays off for it
        aslr = 'off' if pid in FRESH_HASHSEED else 'on'
        env = dict(os.environ, VERIF_HASHSEED=hs, VERIF_ASLR=aslr, PYTHONHASHSEED=hs)
        env.pop('VERIF_REEXEC', None)
        p = subprocess.run([os.path.join(core.VERIF_DIR, 'check'), 'selftest', '--emit', pid, str(n)],
                           capture_output=True, text=True, env=env, timeout=900)
        c = None
        for line in p.stdout.splitlines():
            if line.startswith('DIGESTS '):
                c = json.loads(line[8:])
        if c is None:
            print(f"HARNESS-ERROR: selftest {pid}: fresh interpreter produced no digests: {p.stderr[-400:]}")
            failures += 1
            continue
        bad = [k for k in sorted(a, key=int) if a[k] != b.get(k) or a[k] != c.get(k)]
        if bad:
            print(f"HARNESS-ERROR: selftest {pid}: run {bad[0]} diverges (same-seed digests differ between "
                  f"worker counts / hash seeds): {a[bad[0]]} {b.get(bad[0])} {c.get(bad[0])}; {len(bad)} of {len(a)} runs")
            failures += 1
        else:
            print(f"selftest {pid}: {len(a)} runs x {2 if short else 3} executions ({core.n_workers()} workers"
                  f"{'' if short else ', 3 workers'}, fresh interpreter with 5 workers PYTHONHASHSEED={hs} ASLR {aslr}): "
                  f"digests identical")
    if failures and '--advisory' in argv:
        print("SELFTEST-WARNING: divergence reported above; `./check selftest` (strict) exits 2 on it, and every "
              "thorough tier runs the strict self-test of its own property first")
        return core.EXIT_OK
    return core.EXIT_HARNESS if failures else core.EXIT_OK
