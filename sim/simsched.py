"""
simsched: a seeded scheduler over real threads (DESIGN.md 2.4).

Caller threads are real threading.Threads parked on per-thread events; exactly one holds
the baton. sys.settrace gives a pre-emption point at every function call whose code lives
under xmlschema/ or elementpath/; at each point the scheduler - not the OS - decides who
runs next. Every lock the library creates is replaced by a cooperative SimLock.
A schedule is recorded as segments [(thread, n_points), ...]; replay executes segments
verbatim and falls back to lowest-id-runnable, so any sub-list is still a valid schedule.
"""
import os
import sys
import threading
import hashlib

TARGET_FUNCTIONS = ('build', 'clear', '__call__', '_create_caches', 'text_decode', 'text_is_valid', 'raw_decode',
                    'update_elements', '_lazy_iterparse', 'cached_selector', 'get_instance_type', 'load',
                    'check_validator', 'validation_context', 'collect_key_fields', 'get_counter', 'iter_errors',
                    'get_element', 'build_builtins', '__copy__', '_set_type', 'get_xpath_node')


# functions that touch state shared between threads: when a run enables line-level pre-emption, every LINE of
# these is a yield point (windows that contain no function call become reachable)
LINE_FUNCTIONS = {
    ('xsd_globals.py', 'build'), ('xsd_globals.py', 'clear'), ('caching.py', '__call__'), ('caching.py', '_create_caches'),
    ('caching.py', '__get__'), ('simple_types.py', 'text_decode'), ('simple_types.py', 'text_is_valid'),
    ('identities.py', 'update_elements'), ('xml_loader.py', '_lazy_iterparse'), ('selectors.py', 'cached_selector'),
    ('facets.py', '__call__'), ('assertions.py', '__call__'), ('schemas.py', 'validation_context'),
    ('attributes.py', 'raw_decode'), ('sax.py', 'defuse_xml'), ('xsd_globals.py', 'get_instance_type'),
    ('validation.py', 'clear'),
}


# source files whose every function may be traced line by line in a run that draws one of them: windows without a call
# in functions nobody listed (the quantifier's free-running clause, approximated one file at a time)
LINE_FILES = ('facets.py', 'elements.py', 'identities.py', 'simple_types.py', 'groups.py', 'wildcards.py', 'attributes.py',
              'xsd_globals.py', 'builders.py', 'caching.py', 'validation.py', 'complex_types.py', 'models.py')


class Deadlock(Exception):
    pass


class SimLock:
    """Cooperative replacement of threading.Lock owned by the scheduler."""
    def __init__(self, sched, name='lock', reentrant=False):
        self.sched = sched
        self.name = name
        self.owner = None
        self.count = 0
        self.reentrant = reentrant
        self.acquisitions = 0
        self.contended = 0

    def acquire(self, blocking=True, timeout=-1):
        s = self.sched
        me = s.current_tid()
        if me is None:          # not a scheduled thread (template / sequential epilogue)
            if self.owner is None:
                self.owner = 'main'
                self.count = 1
                return True
            if self.owner == 'main' and self.reentrant:
                self.count += 1
                return True
            return False if not blocking else self._main_deadlock()
        while True:
            if self.owner is None:
                self.owner = me
                self.count = 1
                self.acquisitions += 1
                s.note('acquire', self.name)
                return True
            if self.owner == me and self.reentrant:
                self.count += 1
                return True
            if not blocking:
                s.note('tryfail', self.name)
                return False
            self.contended += 1
            s.probe('lock_contended_' + self.name)
            s.block_on(me, self)      # deschedules; returns when scheduled again

    def _main_deadlock(self):
        raise Deadlock(f"{self.name} held by {self.owner} while the main thread wants it")

    def release(self):
        if self.owner is None:
            raise RuntimeError("release unlocked lock")
        self.count -= 1
        if self.count <= 0:
            self.owner = None
            self.count = 0
            self.sched.unblock(self)

    def locked(self):
        return self.owner is not None

    def __enter__(self):
        self.acquire()
        return True

    def __exit__(self, *a):
        self.release()


class _ThreadingShim:
    """Stands in for the `threading` name inside xsd_globals."""
    def __init__(self, sched):
        self._sched = sched

    def Lock(self):
        return SimLock(self._sched, 'build_lock')

    def RLock(self):
        return SimLock(self._sched, 'rlock', reentrant=True)

    def __getattr__(self, name):
        return getattr(threading, name)


class Scheduler:
    def __init__(self, rng, policy, replay=None, max_points=3_000_000, line_level=False, line_file=None):
        import xmlschema
        import elementpath
        self.prefixes = (os.path.dirname(xmlschema.__file__) + os.sep, os.path.dirname(elementpath.__file__) + os.sep)
        self.rng = rng
        self.policy = policy
        self.replay = [list(s) for s in replay] if replay is not None else None
        self.replay_i = 0
        self.replay_left = self.replay[0][1] if self.replay else 0
        self.threads = {}          # tid -> dict(thread, go, done, blocked_on, fn, result, exc)
        self.order = []
        self.current = None
        self.by_ident = {}
        self.points = 0
        self.max_points = max_points
        self.segments = []         # [(tid, n_points)]
        self.switches = 0
        self.concurrent_switches = 0
        self.edges = hashlib.sha256()
        self.edge_pairs = set()
        self.last_fn = {}
        self.deadlock = None
        self.main_wake = threading.Event()
        self.probes = {}
        self.in_library = {}       # tid -> depth counter is too costly; we use "started and not done"
        self.pct_prio = {}
        self.pct_changes = set()
        self.target_set = set()
        self.finished_order = []
        self.notes = []
        self.line_level = line_level
        self.line_file = line_file      # every function of this source file is traced line by line (swarm style)
        self.line_frames = 0

    # ---- bookkeeping -------------------------------------------------------
    def probe(self, name):
        self.probes[name] = self.probes.get(name, 0) + 1

    def note(self, kind, what):
        if len(self.notes) < 200:
            self.notes.append((self.current, kind, what))

    def current_tid(self):
        return self.by_ident.get(threading.get_ident())

    def spawn(self, fn, name=None):
        tid = len(self.order)
        self.order.append(tid)
        self.threads[tid] = {'go': threading.Event(), 'done': False, 'blocked_on': None, 'fn': fn,
                             'result': None, 'exc': None, 'thread': None, 'started': False}
        return tid

    def runnable(self):
        return [t for t in self.order if not self.threads[t]['done'] and self.threads[t]['blocked_on'] is None]

    # ---- the trace function: pre-emption points --------------------------------
    def _trace(self, frame, event, arg):
        if event != 'call':
            return None
        code = frame.f_code
        if not code.co_filename.startswith(self.prefixes):
            return None
        self.yield_point(code)
        if self.line_level:
            base = os.path.basename(code.co_filename)
            if (base, code.co_name) in LINE_FUNCTIONS or base == self.line_file:
                self.line_frames += 1
                return self._trace_lines
        return None

    def _trace_lines(self, frame, event, arg):
        if event == 'line':
            self.yield_point(frame.f_code)
        return self._trace_lines

    def yield_point(self, code=None):
        me = self.current
        self.points += 1
        if self.points > self.max_points:
            raise RuntimeError("step budget exhausted")
        if self.segments and self.segments[-1][0] == me:
            self.segments[-1][1] += 1
        else:
            self.segments.append([me, 1])
        name = code.co_name if code is not None else '?'
        nxt = self.decide(me, name)
        if nxt is not None and nxt != me:
            self.switch_to(me, nxt, name)
        self.last_fn[me] = name

    def decide(self, me, fname):
        run = self.runnable()
        if len(run) <= 1:
            return None
        if self.replay is not None:
            return self.decide_replay(me, run)
        p = self.policy
        kind = p['kind']
        if kind == 'sequential':
            return None
        if kind == 'uniform':
            if self.rng.random() < p['p']:
                others = [t for t in run if t != me]
                return self.rng.choice(others)
            return None
        if kind == 'targeted':
            if fname in self.target_set and self.rng.random() < p.get('p', 0.7):
                others = [t for t in run if t != me]
                return self.rng.choice(others)
            return None
        if kind == 'pct':
            if self.points in self.pct_changes:
                self.pct_prio[me] = min(self.pct_prio.values()) - 1
            best = max(run, key=lambda t: self.pct_prio[t])
            return best if best != me else None
        return None

    def decide_replay(self, me, run):
        # consume the recorded segments: stay on the segment's thread for its number of points
        while True:
            if self.replay_i >= len(self.replay):
                return None if me in run else min(run)
            tid, n = self.replay[self.replay_i]
            if self.replay_left <= 0:
                self.replay_i += 1
                if self.replay_i < len(self.replay):
                    self.replay_left = self.replay[self.replay_i][1]
                continue
            if tid not in run:
                # the recorded thread is finished or blocked: skip the segment
                self.replay_left = 0
                continue
            self.replay_left -= 1
            return tid if tid != me else None

    def setup_policy(self, n_threads):
        p = self.policy
        if p['kind'] == 'pct':
            prios = list(range(n_threads))
            self.rng.shuffle(prios)
            self.pct_prio = {t: prios[t] for t in range(n_threads)}
            self.pct_changes = {self.rng.randrange(1, p.get('horizon', 20000)) for _ in range(p.get('d', 2))}
        elif p['kind'] == 'targeted':
            k = p.get('k', 4)
            self.target_set = set(self.rng.sample(TARGET_FUNCTIONS, min(k, len(TARGET_FUNCTIONS))))

    # ---- switching -----------------------------------------------------------
    def switch_to(self, me, nxt, fname='?'):
        self.switches += 1
        active = [t for t in self.order if self.threads[t]['started'] and not self.threads[t]['done']]
        if len(active) >= 2:
            self.concurrent_switches += 1
        edge = f"{fname}>{self.last_fn.get(nxt, 'start')}"
        self.edges.update(edge.encode())
        if len(self.edge_pairs) < 5000:
            self.edge_pairs.add(edge)
        self.current = nxt
        mine = self.threads[me]
        self.threads[nxt]['go'].set()
        mine['go'].wait()
        mine['go'].clear()

    def block_on(self, me, lock):
        self.threads[me]['blocked_on'] = lock
        run = self.runnable()
        if not run:
            self.deadlock = {t: getattr(self.threads[t]['blocked_on'], 'name', None) for t in self.order
                             if not self.threads[t]['done']}
            self.main_wake.set()
            self.threads[me]['go'].wait()      # never returns: the run child is discarded
            raise Deadlock(str(self.deadlock))
        nxt = self.pick(run)
        self.switch_to(me, nxt, 'blocked')

    def unblock(self, lock):
        for t in self.order:
            if self.threads[t]['blocked_on'] is lock:
                self.threads[t]['blocked_on'] = None

    def pick(self, run):
        if self.replay is not None:
            return min(run)
        if self.policy['kind'] == 'pct' and self.pct_prio:
            return max(run, key=lambda t: self.pct_prio[t])
        if self.policy['kind'] == 'sequential':
            return min(run)
        return self.rng.choice(run)

    # ---- thread bodies ---------------------------------------------------------
    def _body(self, tid):
        st = self.threads[tid]
        self.by_ident[threading.get_ident()] = tid
        st['go'].wait()
        st['go'].clear()
        st['started'] = True
        sys.settrace(self._trace)
        try:
            st['result'] = st['fn']()
        except BaseException as exc:       # recorded, judged by the check
            st['exc'] = exc
        finally:
            sys.settrace(None)
            st['done'] = True
            self.finished_order.append(tid)
            run = self.runnable()
            if run:
                nxt = self.pick(run)
                self.current = nxt
                self.threads[nxt]['go'].set()
            else:
                pending = [t for t in self.order if not self.threads[t]['done']]
                if pending:
                    self.deadlock = {t: getattr(self.threads[t]['blocked_on'], 'name', None) for t in pending}
                self.main_wake.set()

    def run(self, first=None, timeout=100.0):
        """Start all threads, hand the baton to the first one, wait until all are done."""
        n = len(self.order)
        self.setup_policy(n)
        for tid in self.order:
            th = threading.Thread(target=self._body, args=(tid,), daemon=True)
            self.threads[tid]['thread'] = th
            th.start()
        if self.replay is not None and self.replay:
            start = self.replay[0][0] if self.replay[0][0] in self.order else 0
        elif self.policy['kind'] == 'pct':
            start = max(self.order, key=lambda t: self.pct_prio[t])
        else:
            start = self.rng.choice(self.order) if first is None else first
        self.current = start
        self.threads[start]['go'].set()
        ok = self.main_wake.wait(timeout)
        if not ok:
            self.deadlock = self.deadlock or {'timeout': True}
        return self.deadlock is None

    def interleaving_hash(self):
        return self.edges.hexdigest()[:16]


# --------------------------------------------------------------------------
# installing the cooperative locks

def install_locks(sched, schemas=()):
    """Replace every lock the library owns or will create by SimLocks of this scheduler."""
    import _thread
    import sys as _sys
    import xmlschema.caching as caching
    import xmlschema.validators.xsd_globals as xg
    import xmlschema.resources.xml_loader as xl
    import xmlschema.utils.streams as streams
    caching.Lock = lambda: SimLock(sched, 'cache_lock')
    xg.threading = _ThreadingShim(sched)
    xl.LazyLockType = lambda: SimLock(sched, 'lazy_lock')
    streams.Lock = lambda: SimLock(sched, 'fp_lock')
    try:
        import elementpath.collations as coll
        coll._locale_collate_lock = SimLock(sched, 'collate_lock')
    except Exception:
        pass
    # generic sweep, so that a lock the library gains tomorrow is cooperative too (a real lock held across a
    # switch would park the baton for ever and read as a deadlock that the code does not have):
    #  - module-level and class-level lock OBJECTS are replaced,
    #  - module-level names bound to the lock FACTORIES (`from threading import Lock`) are replaced,
    #  - a module-level name `threading` is replaced by a shim whose Lock/RLock are cooperative.
    lock_types = (type(threading.Lock()), type(threading.RLock()))
    for modname, mod in list(_sys.modules.items()):
        if mod is None or not modname.startswith(('xmlschema', 'elementpath')):
            continue
        for name, value in list(vars(mod).items()):
            try:
                if isinstance(value, lock_types):
                    setattr(mod, name, SimLock(sched, f'{modname}.{name}', reentrant=isinstance(value, lock_types[1])))
                elif value is threading.Lock or value is _thread.allocate_lock:
                    setattr(mod, name, lambda _n=f'{modname}.{name}': SimLock(sched, _n))
                elif value is threading.RLock:
                    setattr(mod, name, lambda _n=f'{modname}.{name}': SimLock(sched, _n, reentrant=True))
                elif value is threading and not isinstance(value, _ThreadingShim):
                    setattr(mod, name, _ThreadingShim(sched))
                elif isinstance(value, type) and getattr(value, '__module__', None) == modname:
                    for cname, cvalue in list(vars(value).items()):
                        if isinstance(cvalue, lock_types):
                            setattr(value, cname, SimLock(sched, f'{value.__name__}.{cname}'))
            except Exception:
                pass
    seen = set()

    def fix_maps(maps):
        if maps is None or id(maps) in seen:
            return
        seen.add(id(maps))
        object.__setattr__(maps, '_build_lock', SimLock(sched, 'build_lock'))
        try:
            object.__setattr__(maps.cache, '_lock', SimLock(sched, 'cache_lock'))
        except Exception:
            pass
        parent = getattr(maps, '_parent', None)
        if parent is not None:
            fix_maps(getattr(parent, 'maps', None))
        for s in list(getattr(maps, '_schemas', ())):
            ms = getattr(s, 'meta_schema', None)
            if ms is not None:
                fix_maps(ms.maps)

    import xmlschema
    for cls in (xmlschema.XMLSchema10, xmlschema.XMLSchema11):
        fix_maps(cls.meta_schema.maps)
    for s in schemas:
        fix_maps(s.maps)
