"""Canonical, JSON-able forms of the library's results (DESIGN.md 2.7)."""
import re
from decimal import Decimal
from collections.abc import Iterator, Mapping
from xml.etree import ElementTree

_ADDR = re.compile(r'0x[0-9a-fA-F]{6,16}')
_QUOTED = re.compile(r"'[^']*'|\"[^\"]*\"")
_NUM = re.compile(r'\b\d+(\.\d+)?\b')
_TUPLE = re.compile(r'\([^()]*\)')


_ELEM_REPR = re.compile(r"<Element '?([^' >]+)'? at 0x~>")


def mask(text):
    # memory addresses, and the repr of an element where a message embeds it (ElementTree quotes the tag, lxml does not)
    return _ELEM_REPR.sub(r'<Element \1 at 0x~>', _ADDR.sub('0x~', str(text)))


def template(reason):
    """Reason template: quoted literals, tuples and numbers replaced (signature use only)."""
    t = mask(reason or '')
    t = _QUOTED.sub('…', t)
    t = _TUPLE.sub('(…)', t)
    t = _NUM.sub('…', t)
    return t[:160]


def canon_error(err, with_path=True, with_elem=True):
    """(class, reason, elem tag, repr(obj)[:80], path)."""
    reason = mask(getattr(err, 'reason', None) or getattr(err, 'message', None) or str(err))
    out = [type(err).__name__, reason]
    if with_elem:
        elem = getattr(err, 'elem', None)
        out.append(getattr(elem, 'tag', None) if elem is not None else None)
        obj = getattr(err, 'obj', None)
        out.append(None if obj is None or hasattr(obj, 'tag') else mask(repr(obj))[:80])
    if with_path:
        try:
            out.append(err.path)
        except Exception as e:  # path computation must not fail the comparison
            out.append(f'<path failed: {type(e).__name__}>')
    return out


def canon_exc(exc):
    import xmlschema
    from xmlschema.validators.exceptions import XMLSchemaValidationError
    if isinstance(exc, XMLSchemaValidationError):
        return {'k': 'raise', 'cls': type(exc).__name__, 'lib': True, 'verr': canon_error(exc)}
    return {'k': 'raise', 'cls': type(exc).__name__,
            'lib': isinstance(exc, xmlschema.XMLSchemaException),
            'msg': mask(str(exc))[:300]}


def canon_data(obj, depth=0):
    """Structural canonical form of decoded data; lazy placeholders are drained in order."""
    from xmlschema.dataobjects import DataElement
    from xmlschema.validators.exceptions import XMLSchemaValidationError
    if depth > 200:
        return '<too deep>'
    if obj is None or isinstance(obj, (bool, int, str)):
        return obj
    if isinstance(obj, float):
        return ['float', repr(obj)]
    if isinstance(obj, Decimal):
        return ['dec', str(obj)]
    if isinstance(obj, bytes):
        return ['bytes', obj.hex()]
    if isinstance(obj, XMLSchemaValidationError):
        return ['error'] + canon_error(obj, with_path=False, with_elem=False)
    if isinstance(obj, DataElement):
        return ['DE', obj.tag, canon_data(dict(obj.attrib), depth + 1),
                canon_data(obj.value, depth + 1),
                [canon_data(c, depth + 1) for c in obj],
                getattr(obj.xsd_type, 'name', None) if obj.xsd_type is not None else None]
    if isinstance(obj, Mapping):
        return ['map', [[canon_data(k, depth + 1), canon_data(v, depth + 1)]
                        for k, v in obj.items()]]
    if isinstance(obj, (list, tuple)):
        return ['seq', [canon_data(x, depth + 1) for x in obj]]
    if isinstance(obj, Iterator):
        return ['lazy', [canon_data(x, depth + 1) for x in obj]]
    if hasattr(obj, 'tag') and hasattr(obj, 'attrib'):
        return ['elem', canon_elem(obj)]
    return ['obj', type(obj).__name__, mask(repr(obj))[:120]]


def canon_elem(elem, with_tail=False):
    """Recursive canonical form of an ElementTree element."""
    if callable(elem.tag):
        return ['#', elem.text]
    return [elem.tag, sorted(elem.attrib.items()), elem.text,
            [canon_elem(c, True) for c in elem]] + ([elem.tail] if with_tail else [])


def elem_shallow(elem):
    return [elem.tag, sorted(elem.attrib.items())]


def canon_encoded(obj):
    if isinstance(obj, tuple) and len(obj) == 2 and isinstance(obj[1], list):
        return ['enc', canon_encoded(obj[0]), [canon_error(e) for e in obj[1]]]
    if obj is None:
        return None
    if hasattr(obj, 'tag'):
        return ElementTree.tostring(obj).decode()
    return canon_data(obj)
